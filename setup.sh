#!/bin/sh
# Build the verification framework from files on disk only (offline).
set -e
cd "$(dirname "$0")"
. ./env.sh
cd harness
go build -tags verif -o ../bin/vcheck ./cmd/vcheck
