#!/usr/bin/env python3
"""Rewrites the generated tables of DESIGN.md (sections 14 and 15) from known_findings.json."""
import json,re
d=json.load(open('/verif/known_findings.json'))['findings']
fx=[f for f in d if f['status']=='fixed']; kf=[f for f in d if f['status']=='known']
out=['## 14. Repairs made in /repo (one `fix:` commit per root cause; existing suite unedited and green)\n',
 'Every entry is recorded in `known_findings.json` with status `fixed`; its witnesses are replayed on every run and must pass (a fixed entry suppresses nothing).\n',
 '| id | properties | commit | defect | what failed |','|---|---|---|---|---|']
for f in fx:
    what=f['line'].split(' ',3)[-1] if f.get('line') else ''
    what=what.split('; fixed:')[0]
    out.append('| %s | %s | %s | %s | %s |'%(f['id'],' '.join(f['properties']),f.get('commit',''),f['title'].replace('|','\\|'),what.replace('|','\\|')[:160]))
out+=['','## 15. Known findings (genuine defects recorded, not repaired)\n',
 'Each has a root-cause description, at least one signature over the harness vocabulary (section 6) and, where available, a replayed witness; matching cases are counted in `coverage.excluded_by_finding`. Everything inside a signature is blind to further regressions - that is the price of not repairing it.\n',
 '| id | properties | defect | why not repaired here |','|---|---|---|---|']
for f in kf:
    out.append('| %s | %s | %s | %s |'%(f['id'],' '.join(f['properties']),f['title'].replace('|','\\|'),f.get('root_cause','').replace('|','\\|')[:300]))
txt='\n'.join(out)+'\n'
p='/verif/DESIGN.md'; s=open(p).read()
a='<!-- BEGIN GENERATED TABLES -->'; b='<!-- END GENERATED TABLES -->'
if a in s:
    s=s[:s.index(a)]+a+'\n'+txt+b+s[s.index(b)+len(b):]
else:
    s=s.rstrip('\n')+'\n\n'+'-'*93+'\n\n'+a+'\n'+txt+b+'\n'
open(p,'w').write(s)
print(len(fx),'fixed',len(kf),'known')
