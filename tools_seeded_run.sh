#!/bin/bash
# tools_seeded_run.sh <seeded-dir-name> <tier> <check ids...>
# Applies one seeded change to /repo, runs the given checks, restores /repo. Prints one line per check.
d=/verif/seeded/$1; tier=$2; shift 2
cd /repo || exit 2
if ! git diff --quiet; then echo "REFUSE: /repo has local changes"; exit 2; fi
if ! git apply --check "$d/patch.diff" 2>/dev/null; then echo "$(basename $d): PATCH DOES NOT APPLY"; exit 3; fi
git apply "$d/patch.diff"
cd /verif
for c in "$@"; do
  s=$(date +%s)
  out=$(VERIF_SEED=${VERIF_SEED:-1} ./check $c $tier 2>&1); rc=$?
  v=$(echo "$out" | grep -c '^VIOLATION')
  echo "$(basename $d) check=$c tier=$tier seed=${VERIF_SEED:-1} exit=$rc violations=$v $(( $(date +%s)-s ))s :: $(echo "$out" | grep -m1 'violation detail' | cut -c1-220)"
done
git -C /repo checkout -- .
