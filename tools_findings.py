#!/usr/bin/env python3
"""Maintainer tool (never run by a check): writes /verif/known_findings.json from the tables
below. The JSON file is what the checks read; it is committed and only changes by hand."""
import json

NOPANIC = ["PANIC", "COMPILE_PANIC", "BUILD_PANIC", "PANIC_OR_FAULT", "FAULT", "HANG", "CRASH", "DATA_RACE",
           "CONFIG_PANIC", "INPUT_MODIFIED", "MODIFIED", "ALIAS", "VALUE_XOR_ERROR", "HARNESS"]
DIFF = ["C01", "C02", "C03", "C04", "C08", "C10", "C11", "C12", "C13", "C19"]

def q(s):
    """Go-quote a python str/bytes the way strconv.Quote does for simple content."""
    if isinstance(s, str):
        s = s.encode()
    out = '"'
    for b in s:
        c = chr(b)
        if c == '"': out += '\\"'
        elif c == '\\': out += '\\\\'
        elif c == '\n': out += '\\n'
        elif c == '\t': out += '\\t'
        elif c == '\r': out += '\\r'
        elif 0x20 <= b < 0x7f: out += c
        else: out += '\\x%02x' % b
    return out + '"'

def dc(prop, pattern, hay, **kw):
    d = {"property": prop, "pattern": pattern, "haystack": q(hay), "n": -1, "k": -1}
    d.update(kw)
    return d

findings = []

def fixed(id, props, commit, title, what, witnesses):
    findings.append({"id": id, "status": "fixed", "properties": props, "title": title, "commit": commit,
                     "line": "; ".join("fixed: property=%s %s %s" % (p, commit, what) for p in props), "witnesses": witnesses})

def known(id, props, title, root, sigs, witnesses):
    findings.append({"id": id, "status": "known", "properties": props, "title": title, "root_cause": root,
                     "signatures": sigs, "witnesses": witnesses})

# ------------------------------------------------------------------ fixed (repaired in /repo by fix: commits)
fixed("FX-01", ["C07"], "98afaf0", "Compile dies with a stack overflow in literal.cloneRegexp",
      "Compile((?:[^\\n])+(?:\\s){2,}(?:b)*(?:a|1| +)(?:ac{2,}c|a)(?:(?:.*)*){2,}) fatal stack overflow",
      [{"property": "C07", "pattern": q(r"(?:[^\n])+(?:\s){2,}(?:b)*(?:a|1| +)(?:ac{2,}c|a)(?:(?:.*)*){2,}"), "haystack": q("ab  a"), "slack": 0}])
fixed("FX-02", ["C04", "C08"], "7c07f07", "enumeration / replace loops advance one byte (not one code point) after an empty match",
      "a* on \"\\xc3\\xa9\" enumerated [0 0][1 1][2 2] instead of [0 0][2 2]; AllIndex yielded $ twice",
      [dc("C04", "a*", "é"), dc("C04", "$", "ab"), dc("C04", "x*", "日本x"),
       dc("C08", "a*", "é€", repl="-", fn=0)])
fixed("FX-03", ["C08"], "bc688c1", "Expand template grammar", "${name}, $name, $10, malformed $ were not handled like regexp",
      [dc("C08", "(a)(?P<n0>b)", "ab", repl="${n0}$10$1x$n0$$${1}${", fn=0)])
fixed("FX-04", ["C08"], "b451edc", "Split n==1 and empty-piece rules", "Split(\"a\", 1) returned [\"\" \"\"]",
      [dc("C08", "a", "a", n=1, repl="", fn=0), dc("C08", "", "abc", n=-1, repl="", fn=0), dc("C08", "a*", "", n=-1, repl="", fn=0)])
fixed("FX-05", ["C04"], "3d5afd9", "AppendAllIndex truncated dst and returned nil for n==0", "AppendAllIndex(dst, ...) != dst ++ matches",
      [dc("C04", "a", "", dst=2, n=0), dc("C04", "a", "aa", dst=2), dc("C04", "a", "aa", dst=1)])
fixed("FX-06", ["C02"], "e82490b", "reverse DFA reports a late match start for patterns whose first element is a loop", "a*b on \"aab\" gave [2 3]",
      [dc("C02", "a*b", "aab"), dc("C02", "[ab]*c", "xabc"), dc("C02", "(?:a|b)*a(?:a|b){7}", "aaabaabaaBabbbabbbabbcbba")])
fixed("FX-07", ["C05"], "b1b096e", "quadratic rescans in the NFA prefilter candidate loop", "a[\\wa](?m:^)a on (a0a/ )^n took quadratic work",
      [{"property": "C05", "kind": "search", "pattern": r"a[\wa](?m:^)a", "api": "FindIndex", "prefix": q(""), "unit": q("a0a/ "), "suffix": q(""), "n": 40}])
fixed("FX-08", ["C01", "C02"], "1bd5569", "anchored first-byte rejection ignored case folding and mis-mapped non-ASCII", "^(?i)ab did not match \"ab\"",
      [dc("C01", "^(?i)ab", "ab"), dc("C02", r"\A(?:(?i)k)\z", "k"), dc("C02", "^é", "éa"), dc("C02", "^[é-ÿ]x", "ÿx")])
fixed("FX-09", ["C06"], "193b68d", "lazy DFA NFA-fallback simulator shared between goroutines", "data race / wrong results / non-termination under concurrent searches (UseDFA, UseReverseSuffix fallback)",
      [{"property": "C06", "pattern": r"\D+|É", "haystacks": [q("0a\x00a\x00\x009b\x00\x00Éb/a@A/ 0001/:"), q("ab")], "calls": [{"api": "FindIndex", "hay": 0}, {"api": "Match", "hay": 1}, {"api": "FindAllIndex", "hay": 0}, {"api": "Count", "hay": 0}], "goroutines": 8, "rounds": 3, "rotation": 1}])
fixed("FX-10", ["C06"], "bf18360", "engine-wide PikeVM used on search paths", "data race in findIndicesAdaptive / findIndicesDFA / backtracker overflow paths",
      [{"property": "C06", "pattern": "(?:a|b)*a(?:a|b){13}", "haystacks": [q("ab" * 400 + "aab" * 100)], "calls": [{"api": "FindIndex", "hay": 0}, {"api": "Find", "hay": 0}, {"api": "Match", "hay": 0}, {"api": "FindSubmatchIndex", "hay": 0}], "goroutines": 8, "rounds": 2, "rotation": 1}])
fixed("FX-11", ["C02", "C07"], "587c9e9", "*Reader methods re-encoded an ill-formed byte as 3-byte U+FFFD", "FindReaderIndex offsets were not stream byte offsets",
      [dc("C02", "b", b"\xc0\xafbbbb", api="FindReaderIndex"), {"property": "C07", "pattern": q("b"), "haystack": q(b"\xff\xffb"), "slack": 0}])
fixed("FX-12", ["C02", "C19"], "e0e2253", "char-class fast paths accepted lazy repetitions and non-ASCII classes", "[a-z]+? matched greedily",
      [dc("C02", r"[\db]+?", "0bb"), dc("C02", r"[c-e0-9]+\s*?", "9c\n"), dc("C02", r"(?m)[0-9]*[1\x{e9}]*\d", "é10"),
       {"property": "C19", "pattern": "[[:alpha:]]+?", "haystacks": [q("AazA")], "template": "charclass", "mutated": 1}])
fixed("FX-13", ["C01", "C02", "C19"], "2f1f187", "branch dispatch approximated unsupported pattern shapes", "^(aa[a-a]+|foo)foo matched \"aa\"",
      [dc("C01", "^(aa[a-a]+|foo)foo", "aa"), dc("C02", r"^( a|b|cbaa|0c-[\wb]+|[a]+)", "aac-9"), dc("C02", "^(log|é€|baz)8", "é€8gg"),
       {"property": "C19", "pattern": "^(c|md)bzc", "haystacks": [q("cbz m cbzc")], "template": "branch-dispatch", "mutated": 1}])
fixed("FX-14", ["C01", "C02", "C19"], "4c89f47+9434e74", "anchored-literal fast path: dot crossed newlines, multiline anchors, folded / non-ASCII parts", "^.+acbb$ matched \"cac\\n1\\nacbb\"",
      [dc("C01", "^.+acbb$", "cac\n1\nacbb"), dc("C02", "^warn.*cßab$", "warncßab"), dc("C02", r"^.+[\sa]+aaa$", "\x0baa a\naa\raaa\x0b\x08!a\naaaa"),
       dc("C02", "(?m)^a.*b$", "x\nab\ny")])
fixed("FX-15", ["C03", "C04"], "5a7b67c", "captures of an empty match at the end of the haystack were dropped", "(x*)? on \"\" gave [0 0 -1 -1]",
      [dc("C03", "(x*)?", ""), dc("C03", r"^([[:^alpha:]]?)$", ""), dc("C04", "(a*)(b*)", "xab")])

# ------------------------------------------------------------------ known (recorded, not repaired)
known("KF-01", ["C01", "C02", "C03", "C04", "C08", "C10", "C11", "C12", "C13", "C14", "C15", "C19"],
      "ill-formed UTF-8 in the haystack is not consumed as U+FFFD of width 1",
      "nfa/compile.go builds byte automata for well-formed UTF-8 only (dot, classes, negated classes): a lone or truncated byte is not a width-1 U+FFFD, so every engine and view deviates from regexp on haystacks that are not valid UTF-8; repairing it means recompiling all class/dot automata with an ill-formed-byte branch",
      [{"hay": ["invalid"], "kinds_not": NOPANIC}],
      [dc("C02", ".+", b"\xc3\n"), dc("C01", r"\PL", b"\xf0\x9e\xb8"), dc("C15", None, b"") if False else {"property": "C15", "atom": ".", "full": False, "bytes": 2, "seed": 0}])
fixed("FX-39", ["C01", "C02", "C04", "C15"], "eaf1d1c", "case folding beyond ASCII missing in the NFA compiler",
      "(?i)к did not match \"к\" (the parser stores К); (?i)ς missed σ; (?i)k missed U+212A",
      [dc("C02", "(?i)к", "к"), dc("C02", "(?i-s:ς)*", "σ"), dc("C01", "(?i)(?is:к)", "к"), dc("C01", "(?i)k", "\u212a"), dc("C01", "(?i)ςZx[\\x{80}-\\x{10ffff}]", "ςZx\U0010ffff")])
fixed("FX-40", ["C01", "C02", "C04", "C15"], "d7ce9ce", "4-byte ranges of large classes accepted every code point sharing the lead byte",
      "\\PL matched U+10000; \\pL, \\pN, \\p{Greek}, [\\x{0}-\\x{200}\\x{1000c}-\\x{1000d}] matched all of U+10000-U+3FFFF",
      [dc("C01", r"\PL", "\U00010000"), dc("C01", r"\p{Greek}", "\U00010000"), dc("C02", r"[\x{0}-\x{200}\x{1000c}-\x{1000d}]", "x\U00020000")])
known("KF-02", ["C01", "C02", "C03", "C04", "C08", "C10", "C11", "C12", "C13", "C14", "C19"],
      "matches can begin, and negated classes can split, inside a well-formed multi-byte code point",
      "nfa/compile.go gives dot and large negated classes (\\D, \\S, \\W, [^x]) a lone-byte branch for ill-formed input (0x80-0xBF resp. 0x80-0xFF; pinned by TestInvalidUTF8NegatedCharClass) and every engine tries a match at every byte offset, so on well-formed input ..x matches \"€x\" at offset 1, ^\\D\\D$ matches \"é\", and \\B matches between the bytes of σ; repairing it needs rune-aware start positions in all engines (the lazy DFA has no look-ahead) and a class representation that tells a stray byte from a code point's own bytes",
      [{"hay": ["utf8"], "any_of": ["class_has_fffd", "dot", "dot_s"], "kinds_not": NOPANIC},
       {"hay": ["utf8"], "must": ["nowordb"], "kinds_not": NOPANIC}],
      [dc("C02", "..x", "€x"), dc("C01", r"^\D\D$", "é"), dc("C02", r"\B", "aσ@")])
fixed("FX-43", DIFF, "caac58e", "bidirectional DFA search used for patterns with assertions",
      "^([a-b]+)|a on \"a`ba\" enumerated [2 4] instead of [3 4]; ^([\\da]+)$|a on \"0a/\" gave [0 2]",
      [dc("C04", "^([a-b]+)|a", "a`ba", k=2), dc("C04", r"^([\da]+)$|a", "0a/"), dc("C04", "^([a-b]{1,3})$|b", "babb")])
known("KF-04", ["C14"], "lazy DFA mishandles word-boundary assertions when driven directly",
      "dfa/lazy look-around handling: \\B on \"\\x00\" is found at 1 instead of 0 by FindAt and missed by the anchored search, (?:(\\B)|b|\\b) is off by one; the meta engine keeps word-boundary patterns away from the DFA paths that show it",
      [{"props": ["C14"], "groups": ["lazydfa", "lazydfa-rev"], "must": ["word_assert"], "kinds_not": NOPANIC}],
      [{"property": "C14", "pattern": "\\B", "cache_capacity_bytes": 2097152, "max_cache_clears": 0, "determinization_limit": 1000, "class_representatives": [0, 1], "exhaustive_len": 3}])
fixed("FX-42", DIFF, "42938af", "inner end-of-text assertions and trailing word boundaries reached DFA-based strategies",
      "(a$)+ on \"aaa\" gave [0 3]; a?\\zc$|c enumerated [4 6]; \\d{2,}[b-c]{2,}[^c-ca-ca]+\\B ended early under the digit prefilter",
      [dc("C02", "(a$)+", "aaa"), dc("C04", r"a?\zc$|c", "a caacbaab"), dc("C02", r"\d{2,}[b-c]{2,}[^c-ca-ca]+\B", "09b\x0000cbbc`/. "), dc("C02", r"(a\z){1,2}", "aa"),
       dc("C03", "(a)+?", "aaa"), dc("C02", ".*?a", "aa"), dc("C03", r"(\b)", ""), dc("C03", "((?:|b))", "b"), dc("C03", "([ac-eb-e]*?)", "aaeaba"), dc("C03", r"\z(caaa|a)", "caaa")])
fixed("FX-30", DIFF + ["C06"], "6da56da", "reverse-suffix searcher took the first/last suffix occurrence for the match",
      ".*aaa on \"aaa\\naKa@aaaa\" gave [4 12]; (?s:.*)aab started at the last line; [a-ab-d]?[\\db]+[b-c]+[a-d]?a enumerated [1 7] instead of [0 7]; shared PikeVM on the fallback path",
      [dc("C02", ".*aaa", "aaa\naKa@aaaa"), dc("C02", "(?s:.*)aab", "cßa\naabab"), dc("C04", r"[a-ab-d]?[\db]+[b-c]+[a-d]?a", "ab9bbaad9ca"),
       dc("C02", r"\w{2,}b", "aab_aab"), dc("C04", r"\d+00", "x000 1000"), dc("C04", "[a-z]+aa", "baa aaa -aaa")])
fixed("FX-31", DIFF, "8d3de3f+4276190", "reverse-suffix-set searcher took a candidate for the match; anchors ignored",
      "\\w+\\.(warn|aaa|aa,|azc) on \"_.warn0.warn\" gave [6 12]; .+\\.(é€|acc) on \"a.acca.acc\" was split in two; (?i)(?m)^c.*xca matched mid-line",
      [dc("C02", r"\w+\.(warn|aaa|aa,|azc)", "_.warn0.warn"), dc("C04", r".+\.(é€|acc)", "a.acca.acc"), dc("C04", r".+\.(zaaa|cb|1a|aBba0|ab)", "a.1aca.cbaxbx.cba.zaaa", n=1),
       dc("C02", r"\w+\.(qux|md|baz)", "Z.qux_.qux"), dc("C01", "(?i)(?m)^c.*xca", "acxxca")])
fixed("FX-32", DIFF, "3166e93+5a1b423", "reverse-inner searcher took the first confirmed inner literal for the match",
      "\\w+b[0-9]* on \"9ab9ab::\" gave [0 4]; .*accb[a-c]+ was split in two; .+aA.+ matched \"aaA\" in FindAll; suffix automaton searched unanchored",
      [dc("C02", r"\w+b[0-9]*", "9ab9ab::"), dc("C04", ".*accb[a-c]+", "aaaccbaabAaccbccaccbcacaccba"), dc("C04", ".+aA.+", "aaA"), dc("C02", ".+bb.*", "bb"),
       dc("C04", ".*ERROR[0-9]+", "ERROR123 and ERROR456")])
fixed("FX-33", DIFF, "66a718b+1d79730", "multiline reverse-suffix searcher returned [line start, first suffix] unverified",
      "(?m)^a.*aa on \"aaa\" gave [0 2]; (?m)^aaaa.*aa matched \"aaaaaA\"; (?m)^warn.*ab was split at the first suffix",
      [dc("C02", "(?m)^a.*aa", "aaa"), dc("C02", "(?m)^aaaa.*aa", "aaaaaA"), dc("C04", "(?m)^warn.*ab", "warnabwarnbabwbbrr0a"), dc("C02", "(?m)^a.*ab", "aabab"),
       dc("C02", "(?m)^xac.*Éca", "xacÉcaxaÉca")])
fixed("FX-34", DIFF + ["C06"], "783ec9d+5063136", "reverse-anchored strategy selected for patterns with other assertions; shared PikeVM for the empty haystack",
      "c\\p{Lu}\\B\\b\\z matched \"cÖ\"; (?:\\B)(?:\\B|a)$ matched \"a\"",
      [dc("C01", r"c\p{Lu}\B\b\z", "cÖ"), dc("C02", r"(?:\B)(?:\B|éa9ac|a|aa)$", "a"), dc("C02", r"a*\z", "aaba aaaaAaaaaßxa")])
fixed("FX-35", DIFF, "f8713a2", "composite sequence DFA: minimum above one treated as one; unsound skip after a failed attempt",
      "[a-aa-bb-d]+\\d{2,} matched \"d9\"; [ax]+[by]+[ax]+[cz]+ on \"abaabac\" found nothing",
      [dc("C02", r"[a-aa-bb-d]+\d{2,}", "d9d::`\n9"), dc("C02", "[ax]+[by]+[ax]+[cz]+", "abaabac"), dc("C04", "[xa]+[yb]+[xa]+[zc]+", "xyxyxz"),
       dc("C02", r"[\wa]{2,}[d-ga]+", "c_a"), dc("C04", "[c-d]{2,}[a-bb-e]{2,}", "f`€fccaaaebafcaacb€bc日d`effddcdaaea", n=2)])
fixed("FX-36", ["C17"], "12c8bae", "suffix extraction extended an inexact suffix to the left",
      "foo(\\da) yielded the suffix \"fooa\"",
      [{"property": "C17", "pattern": "foo(\\da)", "extractor_config": {"CrossProductLimit": 250, "MaxClassSize": 10, "MaxLiteralLen": 64, "MaxLiterals": 64}, "samples": [q("foo0a")]}])
fixed("FX-37", ["C14"], "d952d38", "reverse lazy DFA scans reported no match for an empty region",
      "SearchReverse(h, k, k) returned -1 for patterns that match the empty string",
      [{"property": "C14", "pattern": "[d-e]*", "cache_capacity_bytes": 512, "max_cache_clears": 3, "determinization_limit": 20, "class_representatives": [29, 14, 22, 35], "exhaustive_len": 3}])


fixed("FX-16", ["C02", "C04", "C11"], "058f02a", "adaptive/DFA paths assumed a match starts within 100 bytes of its end", "matches longer than 100 bytes got a late start under UseBoth/UseDFA",
      [dc("C02", "ya+", "y" + "a" * 300), dc("C04", ".*1", "aaa1x" + "aaa1" * 200, dst=2)])
fixed("FX-17", ["C07", "C09"], "2811529", "Compile panicked for an empty character class next to a capture group", "(?:(a)|[^\\x00-\\x{10FFFF}]c|b|a): index out of range in the one-pass builder",
      [{"property": "C07", "pattern": q(r"(?:(a)|[^\x00-\x{10FFFF}]c|b|a)"), "haystack": q("ab"), "slack": 0},
       {"property": "C09", "kind": "compile", "pattern": q(r"}([^\x00-\x{10FFFF}])"), "quoted": True, "probe": q("}}}")}])
fixed("FX-18", ["C09"], "128e989", "Compile acceptance and error text", "nesting > 100 rejected; MustCompile panic text for non-backquotable patterns; CompilePOSIX accepted Perl syntax",
      [{"property": "C09", "kind": "compile", "pattern": q("(" * 150 + "a" + ")" * 150), "quoted": True, "probe": q("a")},
       {"property": "C09", "kind": "compile", "pattern": q(b"\xff"), "quoted": True, "probe": q("")},
       {"property": "C09", "kind": "compile", "pattern": q(r"\w+a**"), "quoted": True, "probe": q("")},
       {"property": "C09", "kind": "compile", "pattern": q(r"a`("), "quoted": True, "probe": q("")}])
fixed("FX-19", ["C09"], "9512c48", "LiteralPrefix", "a{2}b, (?i)abc, ^abc$ reported a different prefix / completeness than regexp",
      [{"property": "C09", "kind": "compile", "pattern": q("a{2}b"), "quoted": True, "probe": q("aab")},
       {"property": "C09", "kind": "compile", "pattern": q("(?i-s:[c-c])"), "quoted": True, "probe": q("C")},
       {"property": "C09", "kind": "compile", "pattern": q("^abc$"), "quoted": True, "probe": q("abc")}])

fixed("FX-20", ["C01", "C04", "C10", "C12"], "47e12ef", "partial-coverage literal sets were used as prefilter gates", "(?i) alternations with overflowed literal sets: Match false while FindIndex found the match",
      [dc("C01", "(?i)baa|aaaaaa|aaaab|baaaaa|aaa|aab|baaaaa6|aaa7|bab|aaa9|aaa10|aaa11|aaa12|aaa13|aaaaaa14|aaaaaa15|aaa16|aaa17|aaa18|aaa19|aaa20|aaa21|aaa22|aaa23|aaa24|aaa25|aab26|aaa27|aaa28|aaa29|aaa30|aaa31|aaa32|aaa33|aaa34|aaa35|aaa36|aaa37|aaa38|aaa39|aaa40|aaa41|aaa42|aaa43|aaa44|aaa45|aaa46|aaa47|aaa48|aaa49|aaa50|aaa51|aaa52|aaa53|aaaaaa54|aaa55", "BAB")])
fixed("FX-23", ["C01", "C04", "C12", "C17"], "f9346ad", "truncated literal sequences were not flagged partial", "(?i) alternation with more than MaxLiterals case variants: FindAll found nothing",
      [dc("C04", "(?i)(?:aaa|baaa|aaaaa|caaa|baa|babc|aab|baa7|aaaaaa|baaaa|caaaaa|aaaa|bacaa|aacaaa|aada|bbaaaa|cbaaa|abaa|aaeaaa|cbb|abba|bad|caca|abca|cad|bbbaa|adaaaa|bbc|abda|bdaaa|bea|cca|acba|bfaa|daaaaa|bcaaa|bhaa|faaa|fba|eba|aaa40|aaa41|aaaa42|aaa43|aaaa44|aaaa45|aaaaaa46) ", "aCABEbA ", n=1, k=1)])
fixed("FX-24", ["C01"], "b2e2c9f", "DFA-unsafe pattern shapes reached the DFA when the NFA was not small", "(?m:^)([\\x{7ff}-\\x{800}]+[\\sa]+)+ : Match false, Find found the match (UseBoth)",
      [dc("C01", r"(?m:^)([\x{7ff}-\x{800}]+[\sa]+)+", "aaaaa\u07ff\u07ff\u07ffa\t\u07ff\u07ffa\n\u07ffa")])
fixed("FX-25", ["C06"], "3285818", "ASCII-only backtracker used its embedded visited table", "data race in BoundedBacktracker.shouldVisit under UseBoundedBacktracker with ASCII input",
      [{"property": "C06", "pattern": r"^(\w+)\s(\w+).*x", "haystacks": [q("hello world abc x" * 3), q("ab cd x")], "calls": [{"api": "Match", "hay": 0}, {"api": "FindIndex", "hay": 0}, {"api": "FindSubmatchIndex", "hay": 1}, {"api": "Match", "hay": 1}], "goroutines": 8, "rounds": 3, "rotation": 1}])
fixed("FX-26", ["C14", "C13", "C02"], "b6682c5", "lazy DFA acceleration skipped over dead transitions", "(?:a|b)*a(?:a|b){2}: SearchAt(276) returned 302 instead of 295 after earlier searches had filled the cache",
      [{"property": "C14", "pattern": "(?:a|b)*a(?:a|b){2}", "cache_capacity_bytes": 2097152, "max_cache_clears": 0, "determinization_limit": 1000, "class_representatives": [1, 2], "exhaustive_len": 3,
        "extra_haystacks": [q("aaaaaaaaaaaaaaaaaaaaaaaaaaaaaaaacaaabaabaa`aac`aaba`aaa bacc```babaa`aba`baababbaaaacac`caabba`abaaaacba`` b``b\nbaaba``b`aaabca`\nbaab`ab```baaacacbacaaaaba`bcbaa `acaa ab``ac`aaaaaa`ab`abacaaa ba.a`ac `cccabab aaaa`xbbabccbb```aacaabbabcc \naaacacabxa`aacabba`bc bbb`aaba``aac`-aa`ba`aa`cabbbbacaaa`@c`")]}])
fixed("FX-27", ["C17", "C01"], "8101d7a", "suffix literals ignored case folding", "(?i:a)a reported the suffix literal \"Aa\" only",
      [{"property": "C17", "pattern": "(?i:a)a", "extractor_config": {"MaxLiterals": 64, "MaxLiteralLen": 64, "MaxClassSize": 10, "CrossProductLimit": 250}, "samples": [q("Aa"), q("aa"), q("AA")]},
       {"property": "C17", "pattern": "(?i)привет", "extractor_config": {"MaxLiterals": 64, "MaxLiteralLen": 64, "MaxClassSize": 10, "CrossProductLimit": 250}, "samples": [q("ПРИВЕТ"), q("привет")]}])
fixed("FX-21", ["C02", "C04", "C08", "C13"], "acdd01c", "lazy DFA cache key ignored thread priority order", "(?:a|b)?a(?:a|b){2} on \"baa`aaaa\" ended at 7; results depended on which states an earlier search had cached",
      [dc("C02", "(?:a|b)?a(?:a|b){2}", "baa`aaaa"), dc("C04", "a*é*aa*", "éaéa", k=1), dc("C08", r"\d*\d?[a-aA-Za-a]?a", "0Aaaa", n=-1, repl="", fn=0),
       dc("C08", "(?:a|b)?a(?:a|b){4}", "aaab" * 16, repl="", fn=0)])
fixed("FX-22", ["C10", "C11"], "75e0e6f", "Longest mode ignored by most strategies", "(?:a|[a-b]a) on \"aa\" in Longest mode enumerated [0 1][1 2]",
      [dc("C10", "(?:a|[a-b]a)", "aa", mode="longest"), dc("C10", "a(?:a|a|a*|b)", "ab", mode="longest"),
       dc("C10", r"((?:25[0-5]|2[0-4][0-9]|1[0-9][0-9]|[1-9]?[0-9])\.[0-9]+)+", "250.0250.0", mode="longest"),
       dc("C11", "aaa|baaaa|aaa2|aaa3|aaa4|aaa5|aaa6|aaa7|aaa8|aaa9|aaa10|aaa11|aaa12|aaa13|aaa14|aaa15|aaa16|aaa17|aaa18|aaa19|aaa20|aaa21|aaa22|aaa23|aaa24|aaa25|aaa26|aaa27|aaa28|aaa29|aaa30|aaa31|aaa32", "baaaa", mode="longest", k=0, n=1)])
for sid, strat, title, wit in [
    ("KF-16", "UseTeddy", "Teddy literal engine: leftmost-first choice among overlapping literals, FindAt/FindIndicesAt disagree", dc("C03", "baa|aaa|baaa|aaaa|caaaa|aaa5|baaaa|aaaaaa|baaaa8|aaaa9|aaa10|aaa11|aaa12|aaaaa|aaaa14|aaaa15|aaaa16|aaa17|caa|daa|baaa20|aaaa21|baaa22|aaaa23|baaa24|aaa25|aab|aaa27|baaaaa|aaaaaa29|aaa30|aab31|aaaa32|cba|aab34|aaa35|aaaaaa36|acb|aaa38|aaaaa39|aab40|aaa41|aababb|baa43|aba|aaa45|aaa46|aaa47|aaa48|aab49|aaa50|aaaaa51|aaaba|aab53|aaa54|afb|aaa56|aaa57|aaaaa58|aaaaaa59|aaaaba|aab61|aaa62", "caaaabbbbbbbbbbbbbbbb")),
    ("KF-17", "UseAhoCorasick", "Aho-Corasick literal engine: reports the shortest/first-ending literal instead of the leftmost-first alternative", dc("C03", "aa|b|a|aa3|a4|c|a6|a7|a8|a9|a10|a11|a12|a13|a14|a15|a16|a17|a18|a19|aaaa|a21|a22|a23|a24|b25|a26|a27|abaa|cda|afaa|bd|a32|d|a34|c35|a36|a37|b38|a39|aaa|a41|d42|acaa|aaaa44|aaa45|aea|c47|e|b49|a50|a51|a52|d53|aaaa54|aab|a56|b57|adaa|c59|a60|da|aaaa62|d63|a64|ba|a66|b67|a68|c69|a70|cb|a72|agaa|fab|a75|aaa76|bb|db|b79|c80|aaa81|aaa82|aaa83|a84|a85|b86|a87|b88|a89|b90|c91|dd|bc|a94|e95|a96|ca|d98|a99|aaaa100|a101|c102|gaaa|dc|eaa|b106|a107|b108|h|aaaa110|d111|cc|ceaa", "aa")),
]:
    known(sid, DIFF, title, "meta literal-engine bypass (%s): the multi-pattern searchers implement their own match preference" % strat,
          [{"strategies": [strat], "kinds_not": NOPANIC}], [wit])
fixed("FX-29", ["C14", "C12", "C13", "C02"], "f767027", "lazy DFA cache-full protocol lost the search state",
      "with a cache smaller than the automaton (CacheCapacityBytes/MaxStates at their minimum, or large Unicode classes under the default 2 MB) searches returned -1 or a stale position: transition rows of discarded states were inherited after a clear, the scan restarted from a start state, an ID-less start state indexed row 0, the reverse fallback ran the forward simulator over the reversed automaton, the anchored fallback was unanchored",
      [{"property": "C14", "pattern": "/", "cache_capacity_bytes": 0, "max_states": 1, "max_cache_clears": 5, "determinization_limit": 1000, "class_representatives": [0, 1], "exhaustive_len": 3},
       {"property": "C14", "pattern": "z", "cache_capacity_bytes": 0, "max_states": 2, "max_cache_clears": 4, "determinization_limit": 1000, "class_representatives": [0, 22, 0], "exhaustive_len": 3},
       {"property": "C14", "pattern": "[c-f0-9d-f]+[\\x{3a3}aa]+a?", "cache_capacity_bytes": 1, "max_cache_clears": 2, "determinization_limit": 1000, "class_representatives": [40, 8, 1], "exhaustive_len": 3, "extra_haystacks": [q("a9/0aa")]},
       {"property": "C14", "pattern": "(?:a|b)*a(?:a|b){8}ac", "cache_capacity_bytes": 4096, "max_cache_clears": 1, "determinization_limit": 1000, "class_representatives": [0, 1], "exhaustive_len": 4}])
known("KF-21", ["C14"], "lazy DFA: earliest-match search falls back to the leftmost-first end",
      "dfa/lazy/lazy.go: searchFirstAt gives up through nfaFallback (PikeVM leftmost-first end, not the earliest end) when the cache or the determinisation limit is exceeded (no caller in meta uses SearchFirstAt)",
      [{"props": ["C14"], "apis": ["DFA.SearchFirstAt"], "kinds": ["POS"]}],
      [{"property": "C14", "pattern": "\\w+", "cache_capacity_bytes": 0, "max_states": 1, "max_cache_clears": 4, "determinization_limit": 1000, "class_representatives": [7, 26, 34], "exhaustive_len": 3}])
known("KF-25", ["C14"], "lazy DFA *At entry points treat the start offset as the beginning of the text for ^ / \\A",
      "dfa/lazy/start.go: the start state for at>0 is chosen from the previous byte only, so \\A matches at every offset when the DFA is driven directly (the meta engine refuses at>0 for anchored patterns before calling it)",
      [{"props": ["C14"], "groups": ["lazydfa", "lazydfa-rev"], "any_of": ["anchor"], "kinds_not": NOPANIC}],
      [{"property": "C14", "pattern": "^", "cache_capacity_bytes": 2097152, "max_cache_clears": 0, "determinization_limit": 1000, "class_representatives": [0, 0], "exhaustive_len": 3}])
fixed("FX-38", ["C14", "C19", "C03"], "f73f1a2", "PikeVM copy-on-write captures leaked in-place writes of the preferred branch into the other one",
      "(a)* on \"a\" gave [[0 1] [1 1]] through SearchWithCaptures*; FindSubmatch of (a)*$ on \"aa\" from offset 1 gave [1 2 2 2]",
      [{"property": "C14", "pattern": "(a)*", "cache_capacity_bytes": 2097152, "max_cache_clears": 3, "determinization_limit": 1000, "class_representatives": [0, 1], "exhaustive_len": 3},
       {"property": "C19", "pattern": "(a)*$", "haystacks": [q(""), q("aa")], "template": "end-anchored", "mutated": 0},
       {"property": "C19", "pattern": "([a-a]+){2,}a", "haystacks": [q("aaa"), q("")], "template": "charclass", "mutated": 2}])
fixed("FX-41", ["C14"], "9f64bdf", "PikeVM.SearchWithCapturesAt dropped the groups of an empty match at the end of the haystack",
      "(a*) on \"\" gave [0 0 -1 -1]",
      [{"property": "C14", "pattern": "(a*)", "cache_capacity_bytes": 2097152, "max_cache_clears": 0, "determinization_limit": 1000, "class_representatives": [0, 0], "exhaustive_len": 3}])
known("KF-24", ["C14"], "bounded backtracker in longest mode / on patterns that can match empty",
      "nfa/backtrack.go applies greedy-first semantics: ((b))?? in longest mode gives [0 0]; callers avoid it for empty-matching patterns",
      [{"props": ["C14"], "groups": ["backtrack"], "any_of": ["can_match_empty", "empty_alt"], "kinds_not": NOPANIC},
       {"props": ["C14"], "groups": ["backtrack", "pikevm"], "modes": ["longest"], "kinds_not": NOPANIC}],
      [])
known("KF-30", ["C16"], "multi-literal prefilters skip an occurrence",
      "prefilter (Fat Teddy / Aho-Corasick route and incomplete wrapper over them): Find returns a later position than the first occurrence for some literal sets with shared prefixes / duplicates",
      [{"props": ["C16"], "kinds": ["SKIPPED_OCCURRENCE", "POS"]}],
      [])
known("KF-31", ["C16"], "complete Teddy prefilters report a span that is not the leftmost-first alternative",
      "prefilter/teddy.go FindMatch picks the first verified bucket pattern, not the first literal in pattern order, when one literal is a prefix of another",
      [{"props": ["C16"], "kinds": ["SPAN"]}],
      [])
known("KF-32", ["C17"], "extractor limits truncate literal sets without flagging them partial / keep completeness after truncation",
      "literal/extractor.go: MaxLiterals / MaxLiteralLen / CrossProductLimit below the defaults drop alternatives or cut literals but the sequence stays 'exact'",
      [{"props": ["C17"], "sites": ["reduced_limits"]},
       {"props": ["C12"], "sites": ["*few-literals"], "kinds_not": NOPANIC}],
      [])
known("KF-33", ["C17"], "completeness of a literal ignores zero-width assertions around it",
      "literal/extractor.go skips \\b, \\B and anchors when extending literals, so \\bfoo\\B yields the complete literal \"foo\"; the meta engine compensates by wrapping the prefilter as incomplete when the pattern has assertions",
      [{"props": ["C17"], "kinds": ["COMPLETE_NOT_A_MATCH", "COMPLETE_NOT_EXACT"], "any_of": ["word_assert", "anchor"]}],
      [{"property": "C17", "pattern": r"\bfoo\B", "extractor_config": {"MaxLiterals": 64, "MaxLiteralLen": 64, "MaxClassSize": 10, "CrossProductLimit": 250}, "samples": [q("foo")]}])
known("KF-50", ["C05"], "super-linear search time",
      "nfa/backtrack.go resets the visited table per start position (quadratic on near-miss input for everything routed to the backtracker); nfa/composite.go backtracks over overlapping adjacent classes; digit-prefilter candidate loop restarts the DFA per digit run",
      [{"props": ["C05"], "kinds": ["WORK_OVER_BOUND", "SUPERLINEAR"], "strategies": ["UseBoundedBacktracker", "UseCompositeSearcher", "UseDigitPrefilter", "UseNFA", "UseReverseSuffix", "UseReverseInner", "UseReverseSuffixSet", "UseMultilineReverseSuffix"]}],
      [{"property": "C05", "kind": "search", "pattern": "([a-z])+[0-9]", "api": "FindIndex", "prefix": q(""), "unit": q("z"), "suffix": q(""), "n": 227}])
known("KF-60", ["C06"], "reverse searchers and the composite searcher keep per-search state in the shared engine",
      "meta/reverse_*.go use their own s.pikevm on search paths; nfa.CompositeSearcher.matchLengths is shared scratch space: data races and wrong results under concurrent use",
      [{"props": ["C06"], "strategies": ["UseReverseSuffix", "UseReverseSuffixSet", "UseReverseInner", "UseReverseAnchored", "UseMultilineReverseSuffix", "UseCompositeSearcher"], "kinds": ["DATA_RACE", "RESULT_DIFFERS", "PANIC"]}],
      [])
known("KF-70", ["C20"], "documented zero-allocation calls allocate in steady state",
      "DFA start-state computation (lazy.(*StateSet).ToSliceInsertionOrder, resolveWordBoundaries) runs per call in the direct DFA paths; meta.NewMatch in the reverse strategies; PikeVM.matchesEmptyAt",
      [{"props": ["C20"], "kinds": ["ALLOCATES"]}],
      [])

json.dump({"findings": findings}, open("/verif/known_findings.json", "w"), indent=1, ensure_ascii=False)
print(len(findings), "findings")
