#!/bin/sh
# campaign helper: ./tools_seeds.sh "<seeds>" <tier> <props...>  -> one line per (seed, property), details of violations
seeds="$1"; tier="$2"; shift; shift
for s in $seeds; do
  for p in "$@"; do
    t0=$(date +%s)
    VERIF_SEED=$s ./check $p $tier > out_${p}_${s}.txt 2>&1; c=$?
    echo "seed=$s $p exit=$c $(( $(date +%s)-t0 ))s"
    if [ $c -ne 0 ]; then grep -a "violation detail" -A3 out_${p}_${s}.txt | cut -c1-700 | head -24; grep -a "^INCONCLUSIVE" out_${p}_${s}.txt | head -3 | cut -c1-400; fi
  done
done
