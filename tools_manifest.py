#!/usr/bin/env python3
"""Regenerates MANIFEST.json from the table below (keeps it schema-valid)."""
import json, subprocess
props=[json.loads(l) for l in open('/verif/properties.jsonl')]
hooks=subprocess.run(['git','-C','/repo','log','--format=%H %s'],capture_output=True,text=True).stdout.splitlines()
hook_commits=[l.split()[0] for l in hooks if 'verif hooks' in l]
tech={
 'C01':('differential PBT vs regexp (rapid, sharded)','7 C01'),
 'C02':('differential PBT vs regexp (rapid, sharded)','7 C02'),
 'C03':('differential PBT vs regexp (rapid, sharded)','7 C03'),
 'C04':('differential PBT vs regexp.FindAll* (rapid, sharded)','7 C04'),
 'C05':('PBT over pumped haystack families with a deterministic work meter (coverage counters)','7 C05'),
 'C06':('PBT of concurrent call sets under the Go race detector + sequential-result oracle','7 C06'),
 'C07':('PBT/fuzz of arbitrary patterns x guard-page haystacks with validity predicates','7 C07'),
 'C08':('differential PBT vs regexp Replace*/Expand/Split','7 C08'),
 'C09':('differential PBT over all strings vs regexp Compile/metadata/QuoteMeta','7 C09'),
 'C10':('differential PBT vs regexp in Longest/POSIX mode + isolation laws','7 C10'),
 'C11':('metamorphic PBT: lattice of equalities between all views','7 C11'),
 'C12':('differential PBT across generated configurations vs plain NFA simulation; CPU-feature masked reruns','7 C12'),
 'C13':('model-based PBT over call histories: aged value vs fresh value','7 C13'),
 'C14':('PBT with per-case exhaustive short-string enumeration of every engine vs regexp-derived oracle','7 C14'),
 'C15':('per-atom enumeration of code points and short byte strings vs regexp','7 C15'),
 'C16':('PBT of prefilters vs scalar definition on guard-page haystacks, all start offsets','7 C16'),
 'C17':('PBT with language sampling: extracted literals vs regexp-confirmed matches; algebraic laws','7 C17'),
 'C18':('complete small-length sweep + PBT of SIMD primitives vs scalar definitions on guard pages','7 C18'),
 'C19':('differential PBT around each fast path applicability predicate, direct and end-to-end, all offsets','7 C19'),
 'C20':('PBT over call histories with memory-bound predicates, steady-state heap and AllocsPerRun','7 C20'),
}
claimed=sorted(tech)
text={
 'C01':'Random/structured search for a (pattern, haystack) on which any Match* API disagrees with regexp; a pass means no unlisted disagreement among the generated cases (measured coverage in the evidence file), not absence.',
}
checks=[]
for p in props:
    pid=p['id']
    if pid not in claimed: continue
    t,ref=tech[pid]
    checks.append({
      'property_id':pid,
      'quick_cmd':'./check %s quick'%pid,
      'thorough_cmd':'./check %s thorough'%pid,
      'evidence_file':'/verif/evidence/%s.json'%pid,
      'replay_cmd_template':'./check %s quick --replay {path}'%pid,
      'engine':'vcheck',
      'level_claimed':{'category':'exploration','text':'Generated-input search against an explicit oracle: %s. Holds = no violation outside the listed known findings among the cases explored (counts, non-trivial rule, histograms and samples are in the evidence file); it never establishes absence. Exhaustive sub-spaces are complete only inside their stated bounds.'%t,'design_ref':'DESIGN.md section '+ref},
      'level_note':'Trusted base: Go toolchain/runtime, regexp (reference), rapid v1.3.0, the harness generators/oracles; cases matching a status=known signature in known_findings.json are counted (excluded_by_finding) and not judged.',
      'technique':t})
m={'version':1,
 'setup_cmd':'./setup.sh',
 'hooks':{'guard':'verif','enable':'harness module (replace github.com/coregx/coregex => /repo) built with: go build -tags verif [-race|-cover]','baseline_off_cmd':'cd /repo && go test -vet=off -count=1 -timeout 25m ./...','source_commits':hook_commits,'add_only':True},
 'engines':[{'name':'vcheck','path':'/verif/harness','serves_properties':claimed,'kind_free_text':'Go driver + rapid property workers (plain, -race and -cover builds), 16 seeded shards per run'}],
 'checks':checks,
 'notes':'Property-based testing and fuzzing only (pgregory.net/rapid v1.3.0). Known genuine defects of the pinned tree are listed in /verif/known_findings.json (status known = masked by signature and announced with KNOWN-FINDING lines; status fixed = repaired by a fix: commit in /repo, witnesses replayed as regressions).',
 'not_applicable':[{'property_id':p['id'],'reason':'check not yet registered'} for p in props if p['id'] not in claimed]}
json.dump(m,open('/verif/MANIFEST.json','w'),indent=1)
print('checks',len(checks),'hooks',hook_commits)
