#!/bin/sh
# triage helper: run every property's quick tier in survey mode
for p in "$@"; do
  s=$(date +%s); ./check $p quick -survey > /tmp/survey_$p.txt 2>&1; echo "$p exit=$? $(( $(date +%s)-s ))s $(grep -c '^ *[0-9]* C' /tmp/survey_$p.txt) shapes"
done
