#!/usr/bin/env python3
"""Triage helper: print the survey histogram of a worker report."""
import json,sys
r=json.load(open(sys.argv[1]))
sv=r.get('survey') or {}
tot=sum(v['count'] for v in sv.values())
print('evaluations',r['evaluations'],'discrepancies',tot,'excluded',r.get('excluded_by_finding'))
for k,v in sorted(sv.items(), key=lambda kv:-kv[1]['count']):
    c=v['case']; d=v['example']
    print(f"{v['count']:6d} {k}")
    print("        pat=%r hay=%s api=%s n=%s exp=%s got=%s feats=%s" % (c.get('pattern'), c.get('haystack'), d.get('api'), c.get('n'), d.get('expected','')[:80], d.get('observed','')[:80], ','.join(d.get('features',[]))))
