#!/bin/bash
# Maintainer tool: for each known finding, run surveys with that one mask removed and report
# what (if anything) it still hides.  usage: tools_mask_audit.sh <checks> <seed> [KF ids...]
checks=${1:-1500}; seed=${2:-41}; shift 2
out=/tmp/maskaudit; rm -rf $out; mkdir -p $out
python3 - "$out" "$@" <<'PY'
import json,sys
out=sys.argv[1]; only=set(sys.argv[2:])
d=json.load(open('/verif/known_findings.json'))
jobs=[]
for f in d['findings']:
    if f['status']!='known': continue
    if only and f['id'] not in only: continue
    json.dump({'findings':[g for g in d['findings'] if g['id']!=f['id']]},open(f"{out}/no_{f['id']}.json",'w'))
    for p in f['properties']:
        jobs.append((f['id'],p))
open(out+'/jobs.txt','w').write("\n".join("%s %s"%j for j in jobs)+"\n")
PY
cat $out/jobs.txt | xargs -P 14 -L 1 sh -c 'c='$checks'; case $1 in C05|C06|C20) c=20;; C13|C14) c=$((c/10));; C15) c=2;; esac; timeout 900 /verif/bin/vworker -prop $1 -tier quick -seed '$seed' -shard 0 -shards 1 -checks $c -findings '$out'/no_$0.json -out '$out'/$0_$1.json -survey >/dev/null 2>&1'
python3 - "$out" <<'PY'
import json,sys,glob,os
out=sys.argv[1]
for l in open(out+'/jobs.txt'):
    kf,p=l.split()
    f=f"{out}/{kf}_{p}.json"
    if not os.path.exists(f): print(kf,p,"NO OUTPUT"); continue
    d=json.load(open(f)); sv=d.get('survey') or {}
    tot=sum(v['count'] for v in sv.values())
    print(kf,p,d['status'],'evals',d['evaluations'],'hidden',tot, sorted(((v['count'],k) for k,v in sv.items()),reverse=True)[:4])
PY
