# Toolchain environment used by every command of the framework (DESIGN.md section 2).
TC=/root/go/pkg/mod/golang.org/toolchain@v0.0.1-go1.25.4.linux-amd64/bin
if [ -x "$TC/go" ]; then PATH="$TC:$PATH"; fi
export PATH
export GOTOOLCHAIN=local GOFLAGS=-mod=mod GOPROXY=off
