// vworker runs one property: either a rapid generation shard or the replay of stored cases.
// It is a plain main binary (not a go test) so that it can be built with -race / -cover and
// owns its exit codes: 0 ok, 1 violation found (report written), 2 infrastructure error,
// 3 watchdog expiry (a single case exceeded the per-case deadline).
package main

import (
	"encoding/json"
	"flag"
	"fmt"
	"os"
	"runtime/debug"
	"strings"
	"sync"
	"sync/atomic"
	"testing"
	"time"

	"pgregory.net/rapid"

	"verif/harness/internal/core"
	"verif/harness/internal/props"
)

type tb struct {
	mu     sync.Mutex
	failed bool
	log    strings.Builder
}

func (t *tb) Helper()      {}
func (t *tb) Name() string { return "vworker" }
func (t *tb) Logf(format string, args ...any) {
	t.mu.Lock()
	if t.log.Len() < 1<<16 {
		fmt.Fprintf(&t.log, format+"\n", args...)
	}
	t.mu.Unlock()
}
func (t *tb) Log(args ...any)                   { t.Logf("%s", fmt.Sprint(args...)) }
func (t *tb) Skipf(format string, args ...any)  { t.Logf(format, args...) }
func (t *tb) Skip(args ...any)                  { t.Log(args...) }
func (t *tb) SkipNow()                          {}
func (t *tb) Errorf(format string, args ...any) { t.Logf(format, args...); t.Fail() }
func (t *tb) Error(args ...any)                 { t.Log(args...); t.Fail() }
func (t *tb) Fatalf(format string, args ...any) { t.Logf(format, args...); t.Fail() }
func (t *tb) Fatal(args ...any)                 { t.Log(args...); t.Fail() }
func (t *tb) FailNow()                          { t.Fail() }
func (t *tb) Fail()                             { t.mu.Lock(); t.failed = true; t.mu.Unlock() }
func (t *tb) Failed() bool                      { t.mu.Lock(); defer t.mu.Unlock(); return t.failed }

func main() {
	testing.Init()
	var (
		propID   = flag.String("prop", "", "property id")
		tier     = flag.String("tier", "quick", "quick|thorough")
		seed     = flag.Uint64("seed", 1, "shard seed (never 0)")
		shard    = flag.Int("shard", 0, "shard index")
		checks   = flag.Int("checks", 1000, "rapid checks")
		out      = flag.String("out", "", "report file")
		journal  = flag.String("journal", "", "journal file")
		replay   = flag.String("replay", "", "file with one JSON case (or {case:..}) to replay")
		findings = flag.String("findings", "", "known_findings.json")
		nomask   = flag.Bool("nomask", false, "do not mask known findings (witness replay)")
		caseTO   = flag.Duration("case-timeout", 60*time.Second, "per-case watchdog")
		verbose  = flag.Bool("v", false, "verbose replay output")
		nshards  = flag.Int("shards", 16, "total number of shards (for deterministic sweeps)")
		survey   = flag.Bool("survey", false, "triage mode: record all unlisted discrepancies, never fail")
	)
	flag.Parse()
	debug.SetTraceback("single")

	p := props.ByID(*propID)
	if p == nil {
		fmt.Fprintf(os.Stderr, "unknown property %q\n", *propID)
		os.Exit(2)
	}
	fdb, err := core.LoadFindings(*findings)
	if err != nil {
		fmt.Fprintln(os.Stderr, err)
		os.Exit(2)
	}
	env := core.NewEnv(*tier, *seed, *shard, fdb)
	env.NoMask = *nomask
	env.Survey = *survey
	if *journal != "" {
		if err := env.OpenJournal(*journal); err != nil {
			fmt.Fprintln(os.Stderr, err)
			os.Exit(2)
		}
	}

	// watchdog
	var caseStart atomic.Int64
	env.OnCase = func() { caseStart.Store(time.Now().UnixNano()) }
	go func() {
		for {
			time.Sleep(500 * time.Millisecond)
			s := caseStart.Load()
			if s != 0 && time.Since(time.Unix(0, s)) > *caseTO {
				fmt.Fprintf(os.Stderr, "WATCHDOG: case exceeded %v\n", *caseTO)
				os.Exit(3)
			}
		}
	}()

	start := time.Now()
	rep := &core.Report{Property: *propID, Shard: *shard, Seed: *seed, Checks: *checks, Status: "ok"}

	if *replay != "" {
		os.Exit(doReplay(p, env, *replay, *verbose))
	}

	_ = flag.Set("rapid.checks", fmt.Sprint(*checks))
	_ = flag.Set("rapid.seed", fmt.Sprint(*seed))
	_ = flag.Set("rapid.nofailfile", "true")
	if *tier == "quick" {
		_ = flag.Set("rapid.shrinktime", "20s")
	} else {
		_ = flag.Set("rapid.shrinktime", "60s")
	}

	var last *core.Failure
	t := &tb{}
	passed := 0
	// deterministic complete sweeps (exhaustive sub-spaces), if the property has one
	if sw, ok := p.(interface {
		Sweep(env *core.Env, shards int) *core.Failure
	}); ok {
		if f := sw.Sweep(env, *nshards); f != nil {
			rep.Status = "violation"
			rep.Failure = f
			rep.WallS = time.Since(start).Seconds()
			if *out != "" {
				_ = env.WriteReport(*out, rep)
			}
			os.Exit(1)
		}
		caseStart.Store(0)
	}
	rapid.Check(t, func(rt *rapid.T) {
		c := p.Gen(rt, env)
		env.Journal(c)
		f := p.Run(c, env)
		caseStart.Store(0)
		if f != nil {
			last = f
			env.Freeze()
			rt.Fatalf("violation")
		}
		passed++
	})
	rep.Passed = passed
	rep.WallS = time.Since(start).Seconds()
	rep.RapidLog = t.log.String()
	code := 0
	if t.Failed() {
		if last != nil {
			rep.Status = "violation"
			rep.Failure = last
			code = 1
		} else {
			// rapid failed for a reason other than a property violation (generator error,
			// too many invalid cases, a panic inside the harness): infrastructure problem
			rep.Status = "error"
			rep.Error = "rapid failed without a recorded violation"
			code = 2
		}
	}
	if *out != "" {
		if err := env.WriteReport(*out, rep); err != nil {
			fmt.Fprintln(os.Stderr, err)
			os.Exit(2)
		}
	} else {
		b, _ := json.MarshalIndent(rep, "", " ")
		fmt.Println(string(b))
	}
	os.Exit(code)
}

// doReplay executes stored cases through the plain (non-rapid) path.
// Exit 0: all cases pass; 1: some case fails; prints one JSON line per case.
func doReplay(p core.Property, env *core.Env, path string, verbose bool) int {
	b, err := os.ReadFile(path)
	if err != nil {
		fmt.Fprintln(os.Stderr, err)
		return 2
	}
	var wrapper struct {
		Case json.RawMessage `json:"case"`
	}
	raw := json.RawMessage(b)
	if json.Unmarshal(b, &wrapper) == nil && len(wrapper.Case) > 0 {
		raw = wrapper.Case
	}
	c, err := p.Decode(raw)
	if err != nil {
		fmt.Fprintln(os.Stderr, "decode:", err)
		return 2
	}
	env.Journal(c)
	f := p.Run(c, env)
	res := map[string]any{"case": c, "known": env.LastKnown}
	if f != nil {
		res["status"] = "fail"
		res["disc"] = f.Disc
	} else {
		res["status"] = "pass"
	}
	out, _ := json.Marshal(res)
	fmt.Println(string(out))
	if f != nil {
		if verbose {
			fmt.Printf("expected: %s\nobserved: %s\n", f.Disc.Expected, f.Disc.Observed)
		}
		return 1
	}
	return 0
}
