// vcheck is the driver behind ./check: it rebuilds the worker from /repo's working tree,
// replays known-finding witnesses and the regression corpus, runs the sharded rapid
// generation tier, aggregates evidence and maps everything to the exit-code contract
// (0 held, 1 + "VIOLATION property=<id> replay=<path>", 2 infrastructure/inconclusive).
package main

import (
	"bytes"
	"encoding/binary"
	"encoding/json"
	"flag"
	"fmt"
	"os"
	"os/exec"
	"path/filepath"
	"sort"
	"strconv"
	"strings"
	"sync"
	"syscall"
	"time"

	"verif/harness/internal/core"
)

// root is the framework directory: the working directory of ./check (normally /verif; a
// snapshot directory when a campaign runs from a copy).
var root = func() string {
	if wd, err := os.Getwd(); err == nil {
		if _, err := os.Stat(filepath.Join(wd, "harness", "go.mod")); err == nil {
			return wd
		}
	}
	return "/verif"
}()

// plan describes how one property is run in one tier.
type plan struct {
	Shards  int
	Checks  int           // rapid checks per shard
	CaseTO  time.Duration // per-case watchdog
	Variant string        // "", "race", "cover"
	Env     []string      // extra environment for workers
	MemMB   int           // ulimit -v in MiB (0 = 8192)
	// CPUVariants: additional worker passes with masked CPU features (GODEBUG)
	CPUVariants []string
}

type propPlan struct {
	Level string
	Quick plan
	Thor  plan
}

func q(shards, checks int, to time.Duration) plan {
	return plan{Shards: shards, Checks: checks, CaseTO: to}
}

var cpuVariants = []string{"cpu.avx2=off", "cpu.avx2=off,cpu.ssse3=off"}

var plans = map[string]propPlan{
	"C01": {Level: "exploration", Quick: q(16, 2500, 60*time.Second), Thor: q(16, 60000, 120*time.Second)},
	"C02": {Level: "exploration", Quick: q(16, 2500, 60*time.Second), Thor: q(16, 60000, 120*time.Second)},
	"C03": {Level: "exploration", Quick: q(16, 2500, 60*time.Second), Thor: q(16, 60000, 120*time.Second)},
	"C04": {Level: "exploration", Quick: q(16, 2000, 60*time.Second), Thor: q(16, 50000, 120*time.Second)},
	"C05": {Level: "exploration", Quick: plan{Shards: 16, Checks: 60, CaseTO: 120 * time.Second, Variant: "cover"}, Thor: plan{Shards: 16, Checks: 1500, CaseTO: 300 * time.Second, Variant: "cover"}},
	"C06": {Level: "exploration", Quick: plan{Shards: 8, Checks: 80, CaseTO: 300 * time.Second, Variant: "race"}, Thor: plan{Shards: 8, Checks: 2400, CaseTO: 600 * time.Second, Variant: "race"}},
	"C07": {Level: "exploration", Quick: q(16, 600, 60*time.Second), Thor: q(16, 20000, 120*time.Second)},
	"C08": {Level: "exploration", Quick: q(16, 1500, 60*time.Second), Thor: q(16, 40000, 120*time.Second)},
	"C09": {Level: "exploration", Quick: q(16, 1500, 60*time.Second), Thor: q(16, 40000, 120*time.Second)},
	"C10": {Level: "exploration", Quick: q(16, 1200, 60*time.Second), Thor: q(16, 30000, 120*time.Second)},
	"C11": {Level: "exploration", Quick: q(16, 500, 60*time.Second), Thor: q(16, 15000, 180*time.Second)},
	"C12": {Level: "exploration", Quick: plan{Shards: 16, Checks: 400, CaseTO: 60 * time.Second, CPUVariants: cpuVariants}, Thor: plan{Shards: 16, Checks: 10000, CaseTO: 120 * time.Second, CPUVariants: cpuVariants}},
	"C13": {Level: "exploration", Quick: q(16, 120, 120*time.Second), Thor: q(16, 3000, 300*time.Second)},
	"C14": {Level: "exploration", Quick: q(16, 120, 120*time.Second), Thor: q(16, 2500, 300*time.Second)},
	"C15": {Level: "exploration", Quick: q(16, 5, 120*time.Second), Thor: q(16, 60, 600*time.Second)},
	"C16": {Level: "exploration", Quick: plan{Shards: 16, Checks: 1200, CaseTO: 60 * time.Second, CPUVariants: cpuVariants}, Thor: plan{Shards: 16, Checks: 40000, CaseTO: 120 * time.Second, CPUVariants: cpuVariants}},
	"C17": {Level: "exploration", Quick: q(16, 2000, 60*time.Second), Thor: q(16, 60000, 120*time.Second)},
	"C18": {Level: "exploration", Quick: plan{Shards: 16, Checks: 2000, CaseTO: 60 * time.Second, CPUVariants: cpuVariants}, Thor: plan{Shards: 16, Checks: 40000, CaseTO: 120 * time.Second, CPUVariants: cpuVariants}},
	"C19": {Level: "exploration", Quick: q(16, 1200, 60*time.Second), Thor: q(16, 30000, 120*time.Second)},
	"C20": {Level: "exploration", Quick: q(16, 30, 120*time.Second), Thor: q(16, 700, 300*time.Second)},
}

func main() {
	var (
		propID = flag.String("prop", "", "property id")
		tier   = flag.String("tier", "quick", "quick|thorough")
		replay = flag.String("replay", "", "replay one file and exit")
		survey = flag.Bool("survey", false, "triage: aggregate unlisted discrepancies instead of failing")
		shards = flag.Int("shards", 0, "override shard count")
		checks = flag.Int("checks", 0, "override checks per shard")
	)
	flag.Parse()
	if t := os.Getenv("VERIF_TIER"); t != "" && !flagSet("tier") {
		*tier = t
	}
	pp, ok := plans[*propID]
	if !ok {
		fmt.Fprintf(os.Stderr, "vcheck: unknown property %q\n", *propID)
		os.Exit(2)
	}
	pl := pp.Quick
	if *tier == "thorough" {
		pl = pp.Thor
	}
	if *shards > 0 {
		pl.Shards = *shards
	}
	if *checks > 0 {
		pl.Checks = *checks
	}
	seed := uint64(1)
	if s := os.Getenv("VERIF_SEED"); s != "" {
		if v, err := strconv.ParseInt(s, 0, 64); err == nil {
			seed = uint64(v)
		} else if u, err := strconv.ParseUint(s, 0, 64); err == nil {
			seed = u
		}
	}
	start := time.Now()

	bin, err := buildWorker(pl.Variant)
	if err != nil {
		fmt.Fprintf(os.Stderr, "vcheck: cannot build worker from /repo working tree (infrastructure, not a violation):\n%v\n", err)
		os.Exit(2)
	}

	if *replay != "" {
		os.Exit(replayOne(bin, *propID, *replay))
	}

	d := &driver{prop: *propID, tier: *tier, seed: seed, plan: pl, bin: bin, level: pp.Level, survey: *survey}
	code := d.run()
	d.writeEvidence(time.Since(start).Seconds())
	os.Exit(code)
}

func flagSet(name string) bool {
	set := false
	flag.Visit(func(f *flag.Flag) {
		if f.Name == name {
			set = true
		}
	})
	return set
}

func goEnv() []string {
	env := os.Environ()
	tc := "/root/go/pkg/mod/golang.org/toolchain@v0.0.1-go1.25.4.linux-amd64/bin"
	if _, err := os.Stat(filepath.Join(tc, "go")); err == nil {
		env = append(env, "PATH="+tc+":"+os.Getenv("PATH"))
	}
	env = append(env, "GOTOOLCHAIN=local", "GOFLAGS=-mod=mod", "GOPROXY=off")
	return env
}

var coverPkgs = "verif/harness/cmd/vworker,github.com/coregx/coregex,github.com/coregx/coregex/meta,github.com/coregx/coregex/nfa,github.com/coregx/coregex/dfa/lazy,github.com/coregx/coregex/dfa/onepass,github.com/coregx/coregex/literal,github.com/coregx/coregex/prefilter,github.com/coregx/coregex/simd,github.com/coregx/coregex/internal/conv,github.com/coregx/coregex/internal/sparse"

func buildWorker(variant string) (string, error) {
	out := filepath.Join(root, "bin", "vworker")
	args := []string{"build", "-tags", "verif"}
	switch variant {
	case "race":
		args = append(args, "-race")
		out += "-race"
	case "cover":
		args = append(args, "-cover", "-covermode=atomic", "-coverpkg="+coverPkgs)
		out += "-cover"
	}
	args = append(args, "-o", out, "./cmd/vworker")
	cmd := exec.Command("go", args...)
	cmd.Dir = filepath.Join(root, "harness")
	cmd.Env = goEnv()
	var buf bytes.Buffer
	cmd.Stdout, cmd.Stderr = &buf, &buf
	if err := cmd.Run(); err != nil {
		return "", fmt.Errorf("%v\n%s", err, buf.String())
	}
	return out, nil
}

type driver struct {
	prop, tier, level string
	seed              uint64
	plan              plan
	bin               string
	survey            bool
	tmp               string

	mu          sync.Mutex
	evaluations int64
	hashes      map[uint64]struct{}
	hist        map[string]map[string]int64
	excluded    map[string]int64
	samples     []any
	violations  []string
	knownLines  []string
	notes       []string
	shardInfo   []map[string]any
	inconcl     []string
	surveyAgg   map[string]*core.SurveyEntry
	replayed    int
}

func splitmix(x uint64) uint64 {
	x += 0x9e3779b97f4a7c15
	z := x
	z = (z ^ (z >> 30)) * 0xbf58476d1ce4e5b9
	z = (z ^ (z >> 27)) * 0x94d049bb133111eb
	return z ^ (z >> 31)
}

func (d *driver) shardSeed(i int, variant int) uint64 {
	pn, _ := strconv.Atoi(strings.TrimPrefix(d.prop, "C"))
	s := splitmix(d.seed*1000003 + uint64(pn)*7919 + uint64(i)*104729 + uint64(variant)*15485863)
	s &= 1<<62 - 1
	if s == 0 {
		s = 1
	}
	return s
}

func (d *driver) run() int {
	d.hashes = map[uint64]struct{}{}
	d.hist = map[string]map[string]int64{}
	d.excluded = map[string]int64{}
	d.surveyAgg = map[string]*core.SurveyEntry{}
	tmp, err := os.MkdirTemp("", "vcheck-"+d.prop+"-")
	if err != nil {
		fmt.Fprintln(os.Stderr, err)
		return 2
	}
	defer os.RemoveAll(tmp)
	d.tmp = tmp

	// ---- replay tier: known-finding witnesses and regression corpus
	if code := d.replayTier(tmp); code == 2 {
		return 2
	}

	// ---- generation tier
	var wg sync.WaitGroup
	sem := make(chan struct{}, 16)
	type job struct {
		shard, variant int
		godebug        string
	}
	var jobs []job
	for i := 0; i < d.plan.Shards; i++ {
		jobs = append(jobs, job{i, 0, ""})
	}
	for vi, gd := range d.plan.CPUVariants {
		for i := 0; i < d.plan.Shards; i++ {
			jobs = append(jobs, job{i, vi + 1, gd})
		}
	}
	for _, j := range jobs {
		wg.Add(1)
		sem <- struct{}{}
		go func(j job) {
			defer wg.Done()
			defer func() { <-sem }()
			d.runShard(tmp, j.shard, j.variant, j.godebug)
		}(j)
	}
	wg.Wait()

	for _, l := range d.knownLines {
		fmt.Println(l)
	}
	for _, n := range d.notes {
		fmt.Println("NOTE:", n)
	}
	if d.survey {
		d.printSurvey()
	}
	if len(d.violations) > 0 {
		sort.Strings(d.violations)
		for _, v := range d.violations {
			fmt.Println(v)
		}
		return 1
	}
	if len(d.inconcl) > 0 {
		for _, s := range d.inconcl {
			fmt.Println("INCONCLUSIVE:", s)
		}
		return 2
	}
	fmt.Printf("OK property=%s tier=%s seed=%d evaluations=%d distinct_nontrivial=%d\n", d.prop, d.tier, d.seed, d.evaluations, len(d.hashes))
	return 0
}

func (d *driver) workerCmd(args []string, godebug string) *exec.Cmd {
	mem := d.plan.MemMB
	if mem == 0 {
		mem = 8192
	}
	if d.plan.Variant == "race" {
		mem = 0 // the race runtime reserves a large virtual range
	}
	var cmd *exec.Cmd
	if mem > 0 {
		sh := fmt.Sprintf("ulimit -v %d; exec \"$0\" \"$@\"", mem*1024)
		cmd = exec.Command("/bin/sh", append([]string{"-c", sh, d.bin}, args...)...)
	} else {
		cmd = exec.Command(d.bin, args...)
	}
	cmd.Env = append(os.Environ(), d.plan.Env...)
	switch d.plan.Variant {
	case "race":
		cmd.Env = append(cmd.Env, "GOMAXPROCS=4", "GORACE=halt_on_error=0 exitcode=0 log_path="+filepath.Join(d.tmp, "race"))
	case "cover":
		cmd.Env = append(cmd.Env, "GOMAXPROCS=2", "GOCOVERDIR="+d.tmp)
	default:
		cmd.Env = append(cmd.Env, "GOMAXPROCS=2")
	}
	if godebug != "" {
		cmd.Env = append(cmd.Env, "GODEBUG="+godebug)
	}
	cmd.Dir = filepath.Join(root, "harness")
	return cmd
}

func (d *driver) runShard(tmp string, shard, variant int, godebug string) {
	tag := fmt.Sprintf("%s-s%d-v%d", d.prop, shard, variant)
	out := filepath.Join(tmp, tag+".json")
	journal := filepath.Join(tmp, tag+".journal")
	seed := d.shardSeed(shard, 0) // same case stream for every CPU variant
	args := []string{"-prop", d.prop, "-tier", d.tier, "-seed", fmt.Sprint(seed), "-shard", fmt.Sprint(shard),
		"-checks", fmt.Sprint(d.plan.Checks), "-shards", fmt.Sprint(d.plan.Shards), "-out", out, "-journal", journal,
		"-findings", filepath.Join(root, "known_findings.json"), "-case-timeout", d.plan.CaseTO.String()}
	if d.survey {
		args = append(args, "-survey")
	}
	cmd := d.workerCmd(args, godebug)
	var stderr bytes.Buffer
	cmd.Stderr = &stderr
	cmd.Stdout = &stderr
	err := cmd.Run()
	code := 0
	if err != nil {
		if ee, ok := err.(*exec.ExitError); ok {
			code = ee.ExitCode()
			if ws, ok := ee.Sys().(syscall.WaitStatus); ok && ws.Signaled() {
				code = 128 + int(ws.Signal())
			}
		} else {
			code = 2
		}
	}
	info := map[string]any{"shard": shard, "seed": seed, "exit": code}
	if godebug != "" {
		info["godebug"] = godebug
	}
	switch code {
	case 0, 1:
		rep, err := d.mergeReport(out)
		if err != nil {
			d.addInconclusive(fmt.Sprintf("shard %d: unreadable report: %v", shard, err))
			break
		}
		info["evaluations"] = rep.Evaluations
		info["wall_s"] = rep.WallS
		if rep.Passed < rep.Checks && rep.Status == "ok" {
			info["note"] = fmt.Sprintf("rapid passed %d of %d", rep.Passed, rep.Checks)
		}
		if code == 1 && rep.Failure != nil {
			d.addViolation(rep.Failure)
		}
	case 2:
		d.addInconclusive(fmt.Sprintf("shard %d: worker error: %s", shard, tail(stderr.String(), 600)))
	default:
		// crash (fatal error, signal, OOM) or watchdog expiry: attribute to the journalled case
		d.handleCrash(tmp, shard, code, journal, stderr.String())
	}
	d.mu.Lock()
	d.shardInfo = append(d.shardInfo, info)
	d.mu.Unlock()
}

func tail(s string, n int) string {
	if len(s) > n {
		return "..." + s[len(s)-n:]
	}
	return s
}

func (d *driver) handleCrash(tmp string, shard, code int, journal, stderr string) {
	jb, err := os.ReadFile(journal)
	if err != nil || len(bytes.TrimSpace(jb)) == 0 {
		d.addInconclusive(fmt.Sprintf("shard %d: worker died (exit %d) before journalling a case: %s", shard, code, tail(stderr, 400)))
		return
	}
	line := bytes.TrimSpace(jb)
	if i := bytes.IndexByte(line, '\n'); i >= 0 {
		line = line[:i]
	}
	// confirm by re-executing the single case in a fresh process with a 10x deadline
	cf := filepath.Join(tmp, fmt.Sprintf("crash-%d.json", shard))
	_ = os.WriteFile(cf, line, 0o644)
	args := []string{"-prop", d.prop, "-tier", d.tier, "-replay", cf, "-findings", filepath.Join(root, "known_findings.json"),
		"-case-timeout", (10 * d.plan.CaseTO).String()}
	cmd := d.workerCmd(args, "")
	var buf bytes.Buffer
	cmd.Stdout, cmd.Stderr = &buf, &buf
	err = cmd.Run()
	code2 := 0
	if ee, ok := err.(*exec.ExitError); ok {
		code2 = ee.ExitCode()
		if ws, ok := ee.Sys().(syscall.WaitStatus); ok && ws.Signaled() {
			code2 = 128 + int(ws.Signal())
		}
	}
	kind := "CRASH"
	if code == 3 {
		kind = "HANG"
	}
	switch {
	case code2 == 0:
		d.addInconclusive(fmt.Sprintf("shard %d: worker died (exit %d) but the journalled case passes alone: %s", shard, code, tail(stderr, 300)))
	case code2 == 1:
		// the case fails as an ordinary violation when run alone
		var res struct {
			Disc core.Disc       `json:"disc"`
			Case json.RawMessage `json:"case"`
		}
		_ = json.Unmarshal(firstJSONLine(buf.Bytes()), &res)
		var c any
		_ = json.Unmarshal(res.Case, &c)
		d.addViolation(&core.Failure{Disc: res.Disc, Case: c})
	case code2 == 2:
		d.addInconclusive(fmt.Sprintf("shard %d: replay of journalled case: infrastructure error: %s", shard, tail(buf.String(), 300)))
	default:
		if kind == "HANG" && code2 != 3 {
			kind = "CRASH"
		}
		var c any
		_ = json.Unmarshal(line, &c)
		detail := tail(buf.String(), 1500)
		d.addViolation(&core.Failure{Disc: core.Disc{Prop: d.prop, Kind: kind, Detail: detail}, Case: c})
	}
}

func firstJSONLine(b []byte) []byte {
	for _, l := range bytes.Split(b, []byte("\n")) {
		l = bytes.TrimSpace(l)
		if len(l) > 0 && l[0] == '{' {
			return l
		}
	}
	return nil
}

func (d *driver) mergeReport(path string) (*core.Report, error) {
	b, err := os.ReadFile(path)
	if err != nil {
		return nil, err
	}
	var rep core.Report
	if err := json.Unmarshal(b, &rep); err != nil {
		return nil, err
	}
	hb, _ := os.ReadFile(path + ".hashes")
	d.mu.Lock()
	defer d.mu.Unlock()
	d.evaluations += rep.Evaluations
	for i := 0; i+8 <= len(hb); i += 8 {
		d.hashes[binary.LittleEndian.Uint64(hb[i:])] = struct{}{}
	}
	for h, m := range rep.Hist {
		if d.hist[h] == nil {
			d.hist[h] = map[string]int64{}
		}
		for k, v := range m {
			d.hist[h][k] += v
		}
	}
	for k, v := range rep.Excluded {
		d.excluded[k] += v
	}
	if rep.Shard == 0 || len(d.samples) < 4 {
		for _, s := range rep.Samples {
			if len(d.samples) < 12 {
				d.samples = append(d.samples, s)
			}
		}
	}
	for k, v := range rep.Survey {
		if a := d.surveyAgg[k]; a == nil {
			d.surveyAgg[k] = v
		} else {
			a.Count += v.Count
		}
	}
	return &rep, nil
}

func (d *driver) addInconclusive(s string) {
	d.mu.Lock()
	d.inconcl = append(d.inconcl, s)
	d.mu.Unlock()
}

func (d *driver) addViolation(f *core.Failure) {
	b, _ := json.MarshalIndent(map[string]any{"property": d.prop, "case": f.Case, "disc": f.Disc}, "", " ")
	h := core.HashOf(string(b))
	_ = os.MkdirAll(filepath.Join(root, "replays"), 0o755)
	path := filepath.Join(root, "replays", fmt.Sprintf("%s-%016x.json", d.prop, h))
	_ = os.WriteFile(path, b, 0o644)
	d.mu.Lock()
	d.violations = append(d.violations, fmt.Sprintf("VIOLATION property=%s replay=%s", d.prop, path))
	d.mu.Unlock()
	fmt.Fprintf(os.Stderr, "violation detail: kind=%s api=%s strategy=%s layer=%s expected=%s observed=%s\n  case=%s\n",
		f.Disc.Kind, f.Disc.API, f.Disc.Strategy, f.Disc.Layer, trunc(f.Disc.Expected, 200), trunc(f.Disc.Observed, 200), trunc(compact(f.Case), 600))
	if f.Disc.Detail != "" {
		fmt.Fprintf(os.Stderr, "  detail: %s\n", trunc(f.Disc.Detail, 1200))
	}
}

func compact(v any) string {
	b, _ := json.Marshal(v)
	return string(b)
}

func trunc(s string, n int) string {
	if len(s) > n {
		return s[:n] + "..."
	}
	return s
}

// replayTier replays witnesses of known findings (must still fail -> KNOWN-FINDING line),
// witnesses of fixed findings and corpus files (must pass -> otherwise VIOLATION).
func (d *driver) replayTier(tmp string) int {
	fdb, err := core.LoadFindings(filepath.Join(root, "known_findings.json"))
	if err != nil {
		fmt.Fprintln(os.Stderr, "vcheck:", err)
		return 2
	}
	type item struct {
		file   string
		known  string // finding id if status=known
		title  string
		nomask bool
	}
	var items []item
	for _, f := range fdb.All {
		applies := false
		for _, p := range f.Properties {
			if p == d.prop {
				applies = true
			}
		}
		if !applies {
			continue
		}
		for wi, w := range f.Witnesses {
			var probe struct {
				Prop string `json:"property"`
			}
			_ = json.Unmarshal(w, &probe)
			if probe.Prop != "" && probe.Prop != d.prop {
				continue
			}
			fn := filepath.Join(tmp, fmt.Sprintf("w-%s-%d.json", f.ID, wi))
			_ = os.WriteFile(fn, w, 0o644)
			if f.Status == "known" {
				items = append(items, item{file: fn, known: f.ID, title: f.Title, nomask: true})
			} else {
				items = append(items, item{file: fn})
			}
		}
	}
	corpus, _ := filepath.Glob(filepath.Join(root, "corpus", d.prop, "*.json"))
	sort.Strings(corpus)
	for _, c := range corpus {
		items = append(items, item{file: c})
	}
	var wg sync.WaitGroup
	sem := make(chan struct{}, 16)
	for _, it := range items {
		wg.Add(1)
		sem <- struct{}{}
		go func(it item) {
			defer wg.Done()
			defer func() { <-sem }()
			args := []string{"-prop", d.prop, "-tier", d.tier, "-replay", it.file, "-findings", filepath.Join(root, "known_findings.json"),
				"-case-timeout", d.plan.CaseTO.String()}
			if it.nomask {
				args = append(args, "-nomask")
			}
			cmd := d.workerCmd(args, "")
			var buf bytes.Buffer
			cmd.Stdout, cmd.Stderr = &buf, &buf
			err := cmd.Run()
			code := 0
			if ee, ok := err.(*exec.ExitError); ok {
				code = ee.ExitCode()
				if ws, ok := ee.Sys().(syscall.WaitStatus); ok && ws.Signaled() {
					code = 128 + int(ws.Signal())
				}
			} else if err != nil {
				code = 2
			}
			d.mu.Lock()
			d.replayed++
			d.mu.Unlock()
			var res struct {
				Status string          `json:"status"`
				Known  string          `json:"known"`
				Disc   core.Disc       `json:"disc"`
				Case   json.RawMessage `json:"case"`
			}
			_ = json.Unmarshal(firstJSONLine(buf.Bytes()), &res)
			if it.known != "" {
				d.mu.Lock()
				if code == 0 {
					d.notes = append(d.notes, fmt.Sprintf("witness of known finding %s no longer fails (%s)", it.known, filepath.Base(it.file)))
				} else {
					d.knownLines = append(d.knownLines, fmt.Sprintf("KNOWN-FINDING: property=%s %s %s witness=%s", d.prop, it.known, it.title, trunc(string(res.Case), 300)))
				}
				d.mu.Unlock()
				return
			}
			switch code {
			case 0:
			case 1:
				var c any
				_ = json.Unmarshal(res.Case, &c)
				d.addViolation(&core.Failure{Disc: res.Disc, Case: c})
			case 2:
				d.addInconclusive("replay " + filepath.Base(it.file) + ": " + tail(buf.String(), 300))
			default:
				var c any
				b, _ := os.ReadFile(it.file)
				_ = json.Unmarshal(b, &c)
				kind := "CRASH"
				if code == 3 {
					kind = "HANG"
				}
				d.addViolation(&core.Failure{Disc: core.Disc{Prop: d.prop, Kind: kind, Detail: tail(buf.String(), 1500)}, Case: c})
			}
		}(it)
	}
	wg.Wait()
	sort.Strings(d.knownLines)
	// one line per finding id is enough
	seen := map[string]bool{}
	var lines []string
	for _, l := range d.knownLines {
		f := strings.Fields(l)
		if len(f) >= 3 && !seen[f[2]] {
			seen[f[2]] = true
			lines = append(lines, l)
		}
	}
	d.knownLines = lines
	return 0
}

func replayOne(bin, prop, file string) int {
	cmd := exec.Command(bin, "-prop", prop, "-replay", file, "-findings", filepath.Join(root, "known_findings.json"), "-v")
	cmd.Dir = filepath.Join(root, "harness")
	cmd.Stdout, cmd.Stderr = os.Stdout, os.Stderr
	err := cmd.Run()
	if ee, ok := err.(*exec.ExitError); ok {
		if ee.ExitCode() == 1 {
			fmt.Printf("VIOLATION property=%s replay=%s\n", prop, file)
			return 1
		}
		return 2
	}
	if err != nil {
		return 2
	}
	return 0
}

func (d *driver) printSurvey() {
	type kv struct {
		k string
		v *core.SurveyEntry
	}
	var all []kv
	var tot int64
	for k, v := range d.surveyAgg {
		all = append(all, kv{k, v})
		tot += v.Count
	}
	sort.Slice(all, func(i, j int) bool { return all[i].v.Count > all[j].v.Count })
	fmt.Printf("SURVEY evaluations=%d unlisted=%d excluded=%v\n", d.evaluations, tot, d.excluded)
	for _, e := range all {
		fmt.Printf("%6d %s\n        case=%s\n        api=%s exp=%s got=%s feats=%s site=%s\n", e.v.Count, e.k, trunc(compact(e.v.Case), 420),
			e.v.Example.API, trunc(e.v.Example.Expected, 90), trunc(e.v.Example.Observed, 90), strings.Join(e.v.Example.Feats, ","), e.v.Example.Site)
	}
}

func (d *driver) writeEvidence(wall float64) {
	cov := map[string]any{
		"evaluations":         d.evaluations,
		"distinct_nontrivial": len(d.hashes),
		"rule":                ruleOf(d.prop),
		"samples":             d.samples,
		"histograms":          d.hist,
		"excluded_by_finding": d.excluded,
		"shards":              d.shardInfo,
		"replayed_cases":      d.replayed,
		"exhaustive":          false,
	}
	if len(d.samples) == 0 {
		cov["samples"] = []any{"(no sample recorded)"}
	}
	ev := map[string]any{
		"property_id": d.prop,
		"tier":        d.tier,
		"seed":        int64(d.seed),
		"level":       d.level,
		"coverage":    cov,
		"assumptions": assumptionsOf(d.prop),
		"wall_s":      wall,
		"violations":  len(d.violations),
	}
	b, _ := json.MarshalIndent(ev, "", " ")
	_ = os.MkdirAll(filepath.Join(root, "evidence"), 0o755)
	_ = os.WriteFile(filepath.Join(root, "evidence", d.prop+".json"), b, 0o644)
}
