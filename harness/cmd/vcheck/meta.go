package main

import "verif/harness/internal/props"

func ruleOf(id string) string {
	if p := props.ByID(id); p != nil {
		return p.Rule()
	}
	return ""
}

var commonAssumptions = []string{
	"Go's regexp package (same toolchain) is the reference for stdlib-differential oracles",
	"the Go compiler, runtime and pgregory.net/rapid v1.3.0 are trusted",
	"cases matching a status=known signature of /verif/known_findings.json are counted in coverage.excluded_by_finding and not judged",
}

func assumptionsOf(id string) []string {
	out := append([]string(nil), commonAssumptions...)
	if p := props.ByID(id); p != nil {
		if a, ok := p.(interface{ Assumptions() []string }); ok {
			out = append(out, a.Assumptions()...)
		}
	}
	return out
}
