package core

import (
	"encoding/json"
	"fmt"
	"regexp"
	"regexp/syntax"
	"runtime/debug"
	"strconv"
	"unicode/utf8"

	"github.com/coregx/coregex"
	"github.com/coregx/coregex/meta"
	"github.com/coregx/coregex/nfa"
	"pgregory.net/rapid"

	"verif/harness/internal/feat"
)

// RT is rapid's test handle.
type RT = *rapid.T

// DiffCase is one (pattern, mode, arguments) case of the differential properties.
type DiffCase struct {
	Prop    string `json:"property"`
	Pattern string `json:"pattern"`
	Mode    string `json:"mode,omitempty"` // "" (leftmost-first) | "longest" | "posix"
	HayQ    string `json:"haystack"`       // Go-quoted
	API     string `json:"api,omitempty"`  // "" = every API of the property's groups
	N       int    `json:"n,omitempty"`
	K       int    `json:"k,omitempty"`
	Dst     int    `json:"dst,omitempty"`
	Fn      int    `json:"fn,omitempty"`
	Repl    string `json:"repl,omitempty"`
	Source  string `json:"source,omitempty"`
	Mutated int    `json:"mutated,omitempty"`
}

// Hay returns the haystack bytes.
func (c *DiffCase) Hay() []byte {
	s, err := strconv.Unquote(c.HayQ)
	if err != nil {
		return []byte(c.HayQ)
	}
	return []byte(s)
}

// QuoteHay encodes haystack bytes for a case.
func QuoteHay(h []byte) string { return strconv.Quote(string(h)) }

// DecodeDiffCase parses a DiffCase.
func DecodeDiffCase(raw json.RawMessage) (any, error) {
	var c DiffCase
	if err := json.Unmarshal(raw, &c); err != nil {
		return nil, err
	}
	return &c, nil
}

// Compiled holds both implementations of one pattern in one mode.
type Compiled struct {
	Pattern  string
	Mode     string
	Std      *regexp.Regexp
	Co       *coregex.Regex
	CoErr    error
	Re       *syntax.Regexp
	Feats    []string
	Strategy string
	pike     *nfa.PikeVM
	pikeErr  error
	pikeDone bool
}

// CompileBoth compiles the pattern with regexp and coregex in the given mode.
// A nil result means regexp rejects the pattern (outside the domain).
func CompileBoth(pattern, mode string) (c *Compiled, panicked any) {
	var std *regexp.Regexp
	var err error
	flags := syntax.Perl
	if mode == "posix" {
		std, err = regexp.CompilePOSIX(pattern)
		flags = syntax.POSIX
	} else {
		std, err = regexp.Compile(pattern)
	}
	if err != nil {
		return nil, nil
	}
	if mode == "longest" {
		std.Longest()
	}
	re, err := syntax.Parse(pattern, flags)
	if err != nil {
		return nil, nil
	}
	c = &Compiled{Pattern: pattern, Mode: mode, Std: std, Re: re, Feats: feat.Pattern(re).List()}
	func() {
		defer func() {
			if r := recover(); r != nil {
				panicked = fmt.Sprintf("%v\n%s", r, debug.Stack())
			}
		}()
		if mode == "posix" {
			c.Co, c.CoErr = coregex.CompilePOSIX(pattern)
		} else {
			c.Co, c.CoErr = coregex.Compile(pattern)
		}
		if c.Co != nil && mode == "longest" {
			c.Co.Longest()
		}
		if eng, err := meta.Compile(pattern); err == nil {
			c.Strategy = eng.Strategy().String()
		}
	}()
	return c, panicked
}

// Pike returns the plain NFA simulation of the pattern (O-nfa), or nil.
func (c *Compiled) Pike() *nfa.PikeVM {
	if c.pikeDone {
		return c.pike
	}
	c.pikeDone = true
	defer func() {
		if r := recover(); r != nil {
			c.pike = nil
			c.pikeErr = fmt.Errorf("panic: %v", r)
		}
	}()
	n, err := nfa.NewDefaultCompiler().CompileRegexp(c.Re)
	if err != nil {
		c.pikeErr = err
		return nil
	}
	c.pike = nfa.NewPikeVM(n)
	if c.Mode == "longest" || c.Mode == "posix" {
		c.pike.SetLongest(true)
	}
	return c.pike
}

// pikeSubmatchAt returns the flat submatch vector the plain simulation reports for a search
// starting at offset at (nil = no match).
func (c *Compiled) pikeSubmatchAt(h []byte, at int) (res []int) {
	p := c.Pike()
	if p == nil {
		return nil
	}
	defer func() {
		if r := recover(); r != nil {
			res = []int{-2, -2}
		}
	}()
	m := p.SearchWithSlotTableCapturesAt(h, at) // the simulator the meta engine itself uses
	if m == nil {
		return nil
	}
	out := make([]int, 0, 2*len(m.Captures))
	for _, g := range m.Captures {
		if len(g) < 2 {
			out = append(out, -1, -1)
		} else {
			out = append(out, g[0], g[1])
		}
	}
	if len(out) < 2 {
		out = []int{m.Start, m.End}
	}
	return out
}

// pikeAll enumerates matches with the plain simulation under the stdlib iteration rules.
func (c *Compiled) pikeAll(h []byte, n int) [][]int {
	if n < 0 {
		n = len(h) + 1
	}
	var out [][]int
	pos, prevEnd := 0, -1
	for len(out) < n && pos <= len(h) {
		m := c.pikeSubmatchAt(h, pos)
		if m == nil {
			break
		}
		accept := true
		if m[1] == pos {
			// empty match at the resume position (regexp.allMatches)
			if m[0] == prevEnd {
				accept = false
			}
			if pos < len(h) {
				_, w := utf8.DecodeRune(h[pos:])
				pos += w
			} else {
				pos = len(h) + 1
			}
		} else {
			pos = m[1]
		}
		prevEnd = m[1]
		if accept {
			out = append(out, m)
		}
	}
	return out
}

func eqInts(a, b []int) bool {
	if (a == nil) != (b == nil) || len(a) != len(b) {
		return false
	}
	for i := range a {
		if a[i] != b[i] {
			return false
		}
	}
	return true
}

// Layer localises a discrepancy: "nfa" when the plain NFA simulation itself deviates from
// regexp on this (pattern, haystack) — first match, captures or enumeration — and "meta"
// when the plain simulation is right and only the optimised engine / API layer is wrong.
func (c *Compiled) Layer(h []byte) string {
	if c.Pike() == nil {
		return "meta"
	}
	if !eqInts(c.pikeSubmatchAt(h, 0), c.Std.FindSubmatchIndex(h)) {
		return "nfa"
	}
	want := c.Std.FindAllSubmatchIndex(h, -1)
	got := c.pikeAll(h, -1)
	if len(want) != len(got) {
		return "nfa"
	}
	for i := range want {
		if !eqInts(want[i], got[i]) {
			return "nfa"
		}
	}
	return "meta"
}

// SafeCall runs a coregex call, converting a panic into a value.
func SafeCall(f func() any) (res any, panicked string) {
	defer func() {
		if r := recover(); r != nil {
			panicked = fmt.Sprintf("%v", r)
			st := debug.Stack()
			if len(st) > 3000 {
				st = st[:3000]
			}
			panicked += "\n" + string(st)
		}
	}()
	return f(), ""
}

func spanOf(v any) (s, e int, ok, isSpan bool) {
	switch x := v.(type) {
	case []int:
		if x == nil {
			return 0, 0, false, true
		}
		if len(x) >= 2 {
			return x[0], x[1], true, true
		}
	}
	return 0, 0, false, false
}

func lenOf(v any) (int, bool) {
	switch x := v.(type) {
	case [][]int:
		return len(x), true
	case [][2]int:
		return len(x), true
	case [][]byte:
		return len(x), true
	case []string:
		return len(x), true
	case [][]string:
		return len(x), true
	case [][][]byte:
		return len(x), true
	case int:
		return x, true
	}
	return 0, false
}

// KindOf classifies a mismatch between reference value and observed value.
func KindOf(group string, exp, got any) string {
	switch group {
	case "match":
		e, ok1 := exp.(bool)
		g, ok2 := got.(bool)
		if !ok1 || !ok2 {
			if ea, ok := exp.([]any); ok {
				if ga, ok := got.([]any); ok && len(ea) > 0 && len(ga) > 0 {
					e, _ = ea[0].(bool)
					g, _ = ga[0].(bool)
					if e && !g {
						return "FN"
					}
					if !e && g {
						return "FP"
					}
				}
			}
			return "DIFF"
		}
		if e && !g {
			return "FN"
		}
		return "FP"
	case "find", "submatch":
		es, ee, eok, isSpan := spanOf(exp)
		gs, ge, gok, isSpan2 := spanOf(got)
		if isSpan && isSpan2 {
			switch {
			case eok && !gok:
				return "FN"
			case !eok && gok:
				return "FP"
			case es != gs:
				return "START"
			case ee != ge:
				return "END"
			default:
				return "CAPS"
			}
		}
		// byte/string forms
		en, gn := isNilish(exp), isNilish(got)
		if !en && gn {
			return "FN"
		}
		if en && !gn {
			return "FP"
		}
		return "DIFF"
	case "findall", "findallsub", "count", "iter", "append", "split":
		el, ok1 := lenOf(exp)
		gl, ok2 := lenOf(got)
		if ok1 && ok2 && el != gl {
			if gl < el {
				return "COUNT_LESS"
			}
			return "COUNT_MORE"
		}
		return "SEQ"
	}
	return "DIFF"
}

func isNilish(v any) bool {
	switch x := v.(type) {
	case nil:
		return true
	case []byte:
		return x == nil
	case [][]byte:
		return x == nil
	case []string:
		return x == nil
	case string:
		return false
	}
	return false
}

// DiffAPIs runs the listed APIs on both implementations and returns the first unlisted
// failure. nontrivial is evaluated by the caller.
func DiffAPIs(env *Env, prop string, cc *Compiled, apis []*API, a *Args, c any) *Failure {
	hc := feat.HayClass(a.H)
	layer := ""
	for _, api := range apis {
		exp := api.Std(cc.Std, a)
		got, pan := SafeCall(func() any { return api.Co(cc.Co, a) })
		env.Count("api", api.Name)
		var d *Disc
		if pan != "" {
			d = &Disc{Kind: "PANIC", Expected: Canon(exp), Observed: "panic", Detail: pan}
		} else {
			es, gs := Canon(exp), Canon(got)
			if es == gs {
				continue
			}
			d = &Disc{Kind: KindOf(api.Group, exp, got), Expected: es, Observed: gs}
		}
		if layer == "" {
			layer = cc.Layer(a.H)
		}
		d.Prop, d.API, d.Group, d.Mode = prop, api.Name, api.Group, modeName(cc.Mode)
		d.Layer, d.Strategy, d.Feats, d.Hay = layer, cc.Strategy, cc.Feats, hc
		if f := env.Known(d, c); f != nil {
			return f
		}
	}
	return nil
}

func modeName(m string) string {
	if m == "" {
		return "first"
	}
	return m
}

// RefAnswers is the small API basket used where the reference is not regexp itself
// (C12: plain NFA simulation; C13/C06: a fresh value).
type RefAnswers struct {
	Match  bool
	Find   []int
	Sub    []int
	All    [][]int
	AllSub [][]int
	Count  int
}

// Cmp is one comparison of a basket.
type Cmp struct {
	API, Group, Kind, Exp, Got string
}

// PikeRef computes the basket with the plain NFA simulation under the stdlib iteration rules.
func (c *Compiled) PikeRef(h []byte, n int) *RefAnswers {
	sub := c.pikeSubmatchAt(h, 0)
	r := &RefAnswers{Match: sub != nil, Sub: sub}
	if sub != nil {
		r.Find = []int{sub[0], sub[1]}
	}
	if n != 0 {
		r.AllSub = c.pikeAll(h, n)
	}
	for _, m := range r.AllSub {
		r.All = append(r.All, []int{m[0], m[1]})
	}
	r.Count = len(r.All)
	return r
}

// CoAnswers computes the basket with a coregex value.
func CoAnswers(re *coregex.Regex, h []byte, n int) *RefAnswers {
	return &RefAnswers{Match: re.Match(h), Find: re.FindIndex(h), Sub: re.FindSubmatchIndex(h), All: re.FindAllIndex(h, n),
		AllSub: re.FindAllSubmatchIndex(h, n), Count: re.Count(h, n)}
}

// StdAnswers computes the basket with regexp.
func StdAnswers(re *regexp.Regexp, h []byte, n int) *RefAnswers {
	all := re.FindAllIndex(h, n)
	return &RefAnswers{Match: re.Match(h), Find: re.FindIndex(h), Sub: re.FindSubmatchIndex(h), All: all,
		AllSub: re.FindAllSubmatchIndex(h, n), Count: len(all)}
}

// Compare lists the comparisons (expected = receiver).
func (r *RefAnswers) Compare(g *RefAnswers) []Cmp {
	mk := func(api, group string, e, o any) Cmp {
		es, gs := Canon(e), Canon(o)
		c := Cmp{API: api, Group: group, Exp: es, Got: gs}
		if es != gs {
			c.Kind = KindOf(group, e, o)
		}
		return c
	}
	return []Cmp{
		mk("Match", "match", r.Match, g.Match),
		mk("FindIndex", "find", r.Find, g.Find),
		mk("FindSubmatchIndex", "submatch", r.Sub, g.Sub),
		mk("FindAllIndex", "findall", r.All, g.All),
		mk("FindAllSubmatchIndex", "findallsub", r.AllSub, g.AllSub),
		mk("Count", "count", r.Count, g.Count),
	}
}
