package core

import (
	"encoding/json"
	"fmt"
	"os"
	"sort"
	"strings"
)

// Disc describes one observed discrepancy in the harness's fixed vocabulary.
type Disc struct {
	Prop     string   `json:"property"`
	API      string   `json:"api,omitempty"`
	Group    string   `json:"group,omitempty"`
	Mode     string   `json:"mode,omitempty"`
	Kind     string   `json:"kind"`
	Layer    string   `json:"layer,omitempty"`
	Strategy string   `json:"strategy,omitempty"`
	Feats    []string `json:"features,omitempty"`
	Hay      string   `json:"hay_class,omitempty"`
	Site     string   `json:"site,omitempty"` // call site / allocation site / engine entry point
	Expected string   `json:"expected,omitempty"`
	Observed string   `json:"observed,omitempty"`
	Detail   string   `json:"detail,omitempty"`
}

// Sig is a conjunction over the Disc vocabulary; an empty list is a wildcard.
type Sig struct {
	Props      []string `json:"props,omitempty"`
	Groups     []string `json:"groups,omitempty"`
	APIs       []string `json:"apis,omitempty"`
	Modes      []string `json:"modes,omitempty"`
	Kinds      []string `json:"kinds,omitempty"`
	Layers     []string `json:"layers,omitempty"`
	Strategies []string `json:"strategies,omitempty"`
	Must       []string `json:"must,omitempty"`
	MustNot    []string `json:"must_not,omitempty"`
	AnyOf      []string `json:"any_of,omitempty"`
	Hay        []string `json:"hay,omitempty"`
	Sites      []string `json:"sites,omitempty"`
	KindsNot   []string `json:"kinds_not,omitempty"`
	APIsNot    []string `json:"apis_not,omitempty"`
}

// Finding is one entry of known_findings.json.
type Finding struct {
	ID         string            `json:"id"`
	Status     string            `json:"status"` // known | fixed
	Properties []string          `json:"properties"`
	Title      string            `json:"title"`
	RootCause  string            `json:"root_cause,omitempty"`
	Commit     string            `json:"commit,omitempty"`
	Line       string            `json:"line,omitempty"` // the "fixed: property=<id> <commit> <what failed>" line
	Sigs       []Sig             `json:"signatures,omitempty"`
	Witnesses  []json.RawMessage `json:"witnesses,omitempty"`
}

// Findings is the loaded database.
type Findings struct {
	All []Finding
}

// LoadFindings reads known_findings.json (a missing file is an empty database).
func LoadFindings(path string) (*Findings, error) {
	b, err := os.ReadFile(path)
	if err != nil {
		if os.IsNotExist(err) {
			return &Findings{}, nil
		}
		return nil, err
	}
	var doc struct {
		Findings []Finding `json:"findings"`
	}
	if err := json.Unmarshal(b, &doc); err != nil {
		return nil, fmt.Errorf("known_findings.json: %w", err)
	}
	return &Findings{All: doc.Findings}, nil
}

func in(list []string, v string) bool {
	if len(list) == 0 {
		return true
	}
	for _, x := range list {
		if x == v {
			return true
		}
		switch {
		case len(x) >= 2 && strings.HasPrefix(x, "*") && strings.HasSuffix(x, "*"):
			if strings.Contains(v, x[1:len(x)-1]) {
				return true
			}
		case strings.HasSuffix(x, "*"):
			if strings.HasPrefix(v, strings.TrimSuffix(x, "*")) {
				return true
			}
		case strings.HasPrefix(x, "*"):
			if strings.HasSuffix(v, strings.TrimPrefix(x, "*")) {
				return true
			}
		}
	}
	return false
}

func has(feats []string, f string) bool {
	i := sort.SearchStrings(feats, f)
	return i < len(feats) && feats[i] == f
}

// Matches reports whether the signature covers the discrepancy.
func (s *Sig) Matches(d *Disc) bool {
	if !in(s.Props, d.Prop) || !in(s.Groups, d.Group) || !in(s.APIs, d.API) || !in(s.Modes, d.Mode) ||
		!in(s.Kinds, d.Kind) || !in(s.Layers, d.Layer) || !in(s.Strategies, d.Strategy) || !in(s.Hay, d.Hay) || !in(s.Sites, d.Site) {
		return false
	}
	if len(s.KindsNot) > 0 && in(s.KindsNot, d.Kind) {
		return false
	}
	if len(s.APIsNot) > 0 && in(s.APIsNot, d.API) {
		return false
	}
	for _, f := range s.Must {
		if !has(d.Feats, f) {
			return false
		}
	}
	for _, f := range s.MustNot {
		if has(d.Feats, f) {
			return false
		}
	}
	if len(s.AnyOf) > 0 {
		ok := false
		for _, f := range s.AnyOf {
			if has(d.Feats, f) {
				ok = true
				break
			}
		}
		if !ok {
			return false
		}
	}
	return true
}

// Match returns the id of the first status=known finding whose signature covers d ("" if none).
func (f *Findings) Match(d *Disc) string {
	if f == nil {
		return ""
	}
	sort.Strings(d.Feats)
	for i := range f.All {
		fd := &f.All[i]
		if fd.Status != "known" {
			continue
		}
		for j := range fd.Sigs {
			if fd.Sigs[j].Matches(d) {
				return fd.ID
			}
		}
	}
	return ""
}
