package core

import (
	"encoding/binary"
	"encoding/json"
	"fmt"
	"hash/fnv"
	"os"
	"sort"
	"sync"
)

// Failure is an unlisted violation found by a property.
type Failure struct {
	Disc Disc `json:"disc"`
	Case any  `json:"case"`
}

func (f *Failure) String() string {
	b, _ := json.Marshal(f)
	return string(b)
}

// Property is one of the 20 checks.
type Property interface {
	ID() string
	// Gen draws a case through rapid (all randomness from t).
	Gen(t RT, env *Env) any
	// Run executes a case and returns an unlisted failure or nil. It must be a pure
	// function of (case, tree); it records statistics in env.
	Run(c any, env *Env) *Failure
	// Decode parses the JSON form of a case (replay files, witnesses, corpus).
	Decode(raw json.RawMessage) (any, error)
	// Rule is the evidence text: how cases are generated and what makes one non-trivial.
	Rule() string
}

// Env carries tier parameters, the findings database and statistics.
type Env struct {
	Tier     string
	Thorough bool
	Seed     uint64
	Shard    int
	Findings *Findings
	NoMask   bool // replay of a known witness: report even if a signature matches

	mu          sync.Mutex
	Evaluations int64
	nontriv     map[uint64]struct{}
	Hist        map[string]map[string]int64
	Excluded    map[string]int64
	Samples     []any
	LastKnown   string // id of the last finding matched (replay mode)
	LastDisc    *Disc
	journal     *os.File
	frozen      bool
	OnCase      func() // called when a case starts (watchdog)
	Survey      bool   // triage mode: record every unlisted discrepancy instead of failing
	SurveyHist  map[string]*SurveyEntry
}

// SurveyEntry aggregates unlisted discrepancies of one shape (triage mode).
type SurveyEntry struct {
	Count   int64 `json:"count"`
	Example *Disc `json:"example"`
	Case    any   `json:"case"`
}

// Freeze stops statistics (called once a failure is being shrunk).
func (e *Env) Freeze() {
	e.mu.Lock()
	e.frozen = true
	e.mu.Unlock()
}

// NewEnv creates an environment.
func NewEnv(tier string, seed uint64, shard int, f *Findings) *Env {
	return &Env{Tier: tier, Thorough: tier == "thorough", Seed: seed, Shard: shard, Findings: f,
		nontriv: map[uint64]struct{}{}, Hist: map[string]map[string]int64{}, Excluded: map[string]int64{}}
}

// OpenJournal directs the case journal to a file.
func (e *Env) OpenJournal(path string) error {
	f, err := os.OpenFile(path, os.O_CREATE|os.O_WRONLY|os.O_TRUNC, 0o644)
	if err != nil {
		return err
	}
	e.journal = f
	return nil
}

// Journal records the case about to be executed (one write; crash attribution).
func (e *Env) Journal(c any) {
	if e.OnCase != nil {
		e.OnCase()
	}
	if e.journal == nil {
		return
	}
	b, err := json.Marshal(c)
	if err != nil {
		return
	}
	b = append(b, '\n')
	// keep only the last case: rewrite from offset 0 and truncate
	_, _ = e.journal.WriteAt(b, 0)
	_ = e.journal.Truncate(int64(len(b)))
}

// Eval counts one executed case.
func (e *Env) Eval() {
	e.mu.Lock()
	if !e.frozen {
		e.Evaluations++
	}
	e.mu.Unlock()
}

// HashOf hashes strings into a 64-bit case identity.
func HashOf(parts ...string) uint64 {
	h := fnv.New64a()
	for _, p := range parts {
		_, _ = h.Write([]byte(p))
		_, _ = h.Write([]byte{0})
	}
	return h.Sum64()
}

// NonTrivial records a distinct non-trivial case identity.
func (e *Env) NonTrivial(h uint64) {
	e.mu.Lock()
	if !e.frozen {
		e.nontriv[h] = struct{}{}
	}
	e.mu.Unlock()
}

// Count adds to a histogram bucket.
func (e *Env) Count(hist, bucket string) {
	e.CountN(hist, bucket, 1)
}

// CountN adds n to a histogram bucket.
func (e *Env) CountN(hist, bucket string, n int64) {
	e.mu.Lock()
	if e.frozen {
		e.mu.Unlock()
		return
	}
	m := e.Hist[hist]
	if m == nil {
		m = map[string]int64{}
		e.Hist[hist] = m
	}
	m[bucket] += n
	e.mu.Unlock()
}

// Sample keeps a few real cases for the evidence file (first ones and a sparse tail).
func (e *Env) Sample(c any) {
	e.mu.Lock()
	defer e.mu.Unlock()
	n := e.Evaluations
	if e.frozen {
		return
	}
	if len(e.Samples) < 3 || (n&(n-1)) == 0 && len(e.Samples) < 12 {
		e.Samples = append(e.Samples, c)
	}
}

// Known handles a discrepancy: if a known finding covers it the case is counted under
// that finding and nil is returned; otherwise a Failure is returned.
func (e *Env) Known(d *Disc, c any) *Failure {
	sort.Strings(d.Feats)
	e.LastDisc = d
	if id := e.Findings.Match(d); id != "" {
		e.mu.Lock()
		if !e.frozen {
			e.Excluded[id]++
		}
		e.LastKnown = id
		e.mu.Unlock()
		if !e.NoMask {
			return nil
		}
	}
	if e.Survey {
		key := d.Prop + "|" + d.Layer + "|" + d.Strategy + "|" + d.Group + "|" + d.Kind + "|" + d.Mode + "|" + d.Hay
		e.mu.Lock()
		if e.SurveyHist == nil {
			e.SurveyHist = map[string]*SurveyEntry{}
		}
		se := e.SurveyHist[key]
		if se == nil {
			se = &SurveyEntry{Example: d, Case: c}
			e.SurveyHist[key] = se
		} else if len(d.Expected)+len(d.Observed) < len(se.Example.Expected)+len(se.Example.Observed) {
			se.Example, se.Case = d, c
		}
		se.Count++
		e.mu.Unlock()
		return nil
	}
	return &Failure{Disc: *d, Case: c}
}

// Report is what a worker hands back to the driver.
type Report struct {
	Property    string                      `json:"property"`
	Shard       int                         `json:"shard"`
	Seed        uint64                      `json:"seed"`
	Checks      int                         `json:"checks_requested"`
	Passed      int                         `json:"rapid_passed"`
	Evaluations int64                       `json:"evaluations"`
	Hist        map[string]map[string]int64 `json:"hist"`
	Excluded    map[string]int64            `json:"excluded_by_finding"`
	Samples     []any                       `json:"samples"`
	Failure     *Failure                    `json:"failure,omitempty"`
	Survey      map[string]*SurveyEntry     `json:"survey,omitempty"`
	RapidLog    string                      `json:"rapid_log,omitempty"`
	Status      string                      `json:"status"` // ok | violation | error
	Error       string                      `json:"error,omitempty"`
	WallS       float64                     `json:"wall_s"`
}

// WriteReport writes report JSON and the distinct-hash side file.
func (e *Env) WriteReport(path string, r *Report) error {
	e.mu.Lock()
	r.Evaluations = e.Evaluations
	r.Hist = e.Hist
	r.Excluded = e.Excluded
	r.Samples = e.Samples
	r.Survey = e.SurveyHist
	hashes := make([]byte, 0, 8*len(e.nontriv))
	for h := range e.nontriv {
		hashes = binary.LittleEndian.AppendUint64(hashes, h)
	}
	e.mu.Unlock()
	b, err := json.Marshal(r)
	if err != nil {
		return fmt.Errorf("marshal report: %w", err)
	}
	if err := os.WriteFile(path+".hashes", hashes, 0o644); err != nil {
		return err
	}
	return os.WriteFile(path, b, 0o644)
}
