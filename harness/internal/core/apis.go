package core

import (
	"bytes"
	"io"
	"regexp"
	"strings"
	"unicode/utf8"

	"github.com/coregx/coregex"
)

// Args are the non-pattern arguments of one API call.
type Args struct {
	H    []byte // haystack / source
	N    int    // limit for enumeration / Split
	Repl string // replacement template or literal
	Fn   int    // replacement function id
	Dst  int    // AppendAllIndex dst variant: 0 nil, 1 empty with cap, 2 two sentinel elements
	K    int    // iterator: stop after K items (<0 = drain)
}

// API describes one exported operation on both implementations.
type API struct {
	Name  string
	Group string // match | find | submatch | findall | findallsub | count | iter | append | replace | expand | split
	Std   func(re *regexp.Regexp, a *Args) any
	Co    func(re *coregex.Regex, a *Args) any
	UsesN bool
}

// oneRuneReader yields one rune at a time without implementing anything else.
type oneRuneReader struct {
	b []byte
}

func (r *oneRuneReader) ReadRune() (rune, int, error) {
	if len(r.b) == 0 {
		return 0, 0, io.EOF
	}
	c, n := utf8.DecodeRune(r.b)
	r.b = r.b[n:]
	return c, n, nil
}

// ReplFuncs are the replacement functions of C08 (pure functions of the match).
var ReplFuncs = []func([]byte) []byte{
	func(m []byte) []byte { return m },
	func(m []byte) []byte { return bytes.ToUpper(m) },
	func(m []byte) []byte { return []byte("<$1>") },
	func(m []byte) []byte { return []byte(strings.Repeat("x", len(m)%3)) },
	func(m []byte) []byte { return nil },
	func(m []byte) []byte { return append([]byte("["), append(append([]byte(nil), m...), ']')...) },
}

func fn(a *Args) func([]byte) []byte {
	return ReplFuncs[((a.Fn%len(ReplFuncs))+len(ReplFuncs))%len(ReplFuncs)]
}
func sfn(a *Args) func(string) string {
	f := fn(a)
	return func(s string) string { return string(f([]byte(s))) }
}

func dstFor(a *Args) [][2]int {
	switch a.Dst {
	case 1:
		return make([][2]int, 0, 8)
	case 2:
		return [][2]int{{-7, -7}, {-8, -9}}
	}
	return nil
}

func stdAppend(re *regexp.Regexp, a *Args) any {
	out := append([][2]int(nil), dstFor(a)...)
	for _, m := range re.FindAllIndex(a.H, a.N) {
		out = append(out, [2]int{m[0], m[1]})
	}
	if out == nil {
		out = [][2]int{}
	}
	return out
}

func pairs(x [][]int) [][2]int {
	out := make([][2]int, 0, len(x))
	for _, m := range x {
		out = append(out, [2]int{m[0], m[1]})
	}
	return out
}

func normPairs(x [][2]int) [][2]int {
	if x == nil {
		return [][2]int{}
	}
	return x
}

func takeK[T any](k int, all []T) []T {
	if k >= 0 && k < len(all) {
		return all[:k]
	}
	return all
}

// APIs is the table of all differential operations.
var APIs = []API{
	// ---- C01
	{Name: "Match", Group: "match",
		Std: func(re *regexp.Regexp, a *Args) any { return re.Match(a.H) },
		Co:  func(re *coregex.Regex, a *Args) any { return re.Match(a.H) }},
	{Name: "MatchString", Group: "match",
		Std: func(re *regexp.Regexp, a *Args) any { return re.MatchString(string(a.H)) },
		Co:  func(re *coregex.Regex, a *Args) any { return re.MatchString(string(a.H)) }},
	{Name: "MatchReader", Group: "match",
		Std: func(re *regexp.Regexp, a *Args) any { return re.MatchReader(bytes.NewReader(a.H)) },
		Co:  func(re *coregex.Regex, a *Args) any { return re.MatchReader(bytes.NewReader(a.H)) }},
	{Name: "MatchReader1", Group: "match",
		Std: func(re *regexp.Regexp, a *Args) any { return re.MatchReader(&oneRuneReader{a.H}) },
		Co:  func(re *coregex.Regex, a *Args) any { return re.MatchReader(&oneRuneReader{a.H}) }},
	{Name: "pkg.Match", Group: "match",
		Std: func(re *regexp.Regexp, a *Args) any {
			ok, err := regexp.Match(re.String(), a.H)
			return []any{ok, err != nil}
		},
		Co: func(re *coregex.Regex, a *Args) any {
			ok, err := coregex.Match(re.String(), a.H)
			return []any{ok, err != nil}
		}},
	{Name: "pkg.MatchString", Group: "match",
		Std: func(re *regexp.Regexp, a *Args) any {
			ok, err := regexp.MatchString(re.String(), string(a.H))
			return []any{ok, err != nil}
		},
		Co: func(re *coregex.Regex, a *Args) any {
			ok, err := coregex.MatchString(re.String(), string(a.H))
			return []any{ok, err != nil}
		}},
	{Name: "pkg.MatchReader", Group: "match",
		Std: func(re *regexp.Regexp, a *Args) any {
			ok, err := regexp.MatchReader(re.String(), bytes.NewReader(a.H))
			return []any{ok, err != nil}
		},
		Co: func(re *coregex.Regex, a *Args) any {
			ok, err := coregex.MatchReader(re.String(), bytes.NewReader(a.H))
			return []any{ok, err != nil}
		}},

	// ---- C02
	{Name: "FindIndex", Group: "find",
		Std: func(re *regexp.Regexp, a *Args) any { return re.FindIndex(a.H) },
		Co:  func(re *coregex.Regex, a *Args) any { return re.FindIndex(a.H) }},
	{Name: "FindStringIndex", Group: "find",
		Std: func(re *regexp.Regexp, a *Args) any { return re.FindStringIndex(string(a.H)) },
		Co:  func(re *coregex.Regex, a *Args) any { return re.FindStringIndex(string(a.H)) }},
	{Name: "Find", Group: "find",
		Std: func(re *regexp.Regexp, a *Args) any { return re.Find(a.H) },
		Co:  func(re *coregex.Regex, a *Args) any { return re.Find(a.H) }},
	{Name: "FindString", Group: "find",
		Std: func(re *regexp.Regexp, a *Args) any { return re.FindString(string(a.H)) },
		Co:  func(re *coregex.Regex, a *Args) any { return re.FindString(string(a.H)) }},
	{Name: "FindReaderIndex", Group: "find",
		Std: func(re *regexp.Regexp, a *Args) any { return re.FindReaderIndex(bytes.NewReader(a.H)) },
		Co:  func(re *coregex.Regex, a *Args) any { return re.FindReaderIndex(bytes.NewReader(a.H)) }},

	// ---- C03
	{Name: "FindSubmatchIndex", Group: "submatch",
		Std: func(re *regexp.Regexp, a *Args) any { return re.FindSubmatchIndex(a.H) },
		Co:  func(re *coregex.Regex, a *Args) any { return re.FindSubmatchIndex(a.H) }},
	{Name: "FindStringSubmatchIndex", Group: "submatch",
		Std: func(re *regexp.Regexp, a *Args) any { return re.FindStringSubmatchIndex(string(a.H)) },
		Co:  func(re *coregex.Regex, a *Args) any { return re.FindStringSubmatchIndex(string(a.H)) }},
	{Name: "FindSubmatch", Group: "submatch",
		Std: func(re *regexp.Regexp, a *Args) any { return re.FindSubmatch(a.H) },
		Co:  func(re *coregex.Regex, a *Args) any { return re.FindSubmatch(a.H) }},
	{Name: "FindStringSubmatch", Group: "submatch",
		Std: func(re *regexp.Regexp, a *Args) any { return re.FindStringSubmatch(string(a.H)) },
		Co:  func(re *coregex.Regex, a *Args) any { return re.FindStringSubmatch(string(a.H)) }},
	{Name: "FindReaderSubmatchIndex", Group: "submatch",
		Std: func(re *regexp.Regexp, a *Args) any { return re.FindReaderSubmatchIndex(bytes.NewReader(a.H)) },
		Co:  func(re *coregex.Regex, a *Args) any { return re.FindReaderSubmatchIndex(bytes.NewReader(a.H)) }},

	// ---- C04
	{Name: "FindAllIndex", Group: "findall", UsesN: true,
		Std: func(re *regexp.Regexp, a *Args) any { return re.FindAllIndex(a.H, a.N) },
		Co:  func(re *coregex.Regex, a *Args) any { return re.FindAllIndex(a.H, a.N) }},
	{Name: "FindAllStringIndex", Group: "findall", UsesN: true,
		Std: func(re *regexp.Regexp, a *Args) any { return re.FindAllStringIndex(string(a.H), a.N) },
		Co:  func(re *coregex.Regex, a *Args) any { return re.FindAllStringIndex(string(a.H), a.N) }},
	{Name: "FindAll", Group: "findall", UsesN: true,
		Std: func(re *regexp.Regexp, a *Args) any { return ListBytes(re.FindAll(a.H, a.N)) },
		Co:  func(re *coregex.Regex, a *Args) any { return ListBytes(re.FindAll(a.H, a.N)) }},
	{Name: "FindAllString", Group: "findall", UsesN: true,
		Std: func(re *regexp.Regexp, a *Args) any { return ListStrings(re.FindAllString(string(a.H), a.N)) },
		Co:  func(re *coregex.Regex, a *Args) any { return ListStrings(re.FindAllString(string(a.H), a.N)) }},
	{Name: "FindAllSubmatchIndex", Group: "findallsub", UsesN: true,
		Std: func(re *regexp.Regexp, a *Args) any { return re.FindAllSubmatchIndex(a.H, a.N) },
		Co:  func(re *coregex.Regex, a *Args) any { return re.FindAllSubmatchIndex(a.H, a.N) }},
	{Name: "FindAllStringSubmatchIndex", Group: "findallsub", UsesN: true,
		Std: func(re *regexp.Regexp, a *Args) any { return re.FindAllStringSubmatchIndex(string(a.H), a.N) },
		Co:  func(re *coregex.Regex, a *Args) any { return re.FindAllStringSubmatchIndex(string(a.H), a.N) }},
	{Name: "FindAllSubmatch", Group: "findallsub", UsesN: true,
		Std: func(re *regexp.Regexp, a *Args) any { return re.FindAllSubmatch(a.H, a.N) },
		Co:  func(re *coregex.Regex, a *Args) any { return re.FindAllSubmatch(a.H, a.N) }},
	{Name: "FindAllStringSubmatch", Group: "findallsub", UsesN: true,
		Std: func(re *regexp.Regexp, a *Args) any { return re.FindAllStringSubmatch(string(a.H), a.N) },
		Co:  func(re *coregex.Regex, a *Args) any { return re.FindAllStringSubmatch(string(a.H), a.N) }},
	{Name: "Count", Group: "count", UsesN: true,
		Std: func(re *regexp.Regexp, a *Args) any { return len(re.FindAllIndex(a.H, a.N)) },
		Co:  func(re *coregex.Regex, a *Args) any { return re.Count(a.H, a.N) }},
	{Name: "CountString", Group: "count", UsesN: true,
		Std: func(re *regexp.Regexp, a *Args) any { return len(re.FindAllIndex(a.H, a.N)) },
		Co:  func(re *coregex.Regex, a *Args) any { return re.CountString(string(a.H), a.N) }},
	{Name: "AllIndex", Group: "iter",
		Std: func(re *regexp.Regexp, a *Args) any { return takeK(a.K, pairs(re.FindAllIndex(a.H, -1))) },
		Co: func(re *coregex.Regex, a *Args) any {
			out := [][2]int{}
			for m := range re.AllIndex(a.H) {
				if a.K >= 0 && len(out) >= a.K {
					break
				}
				out = append(out, m)
			}
			return out
		}},
	{Name: "AllStringIndex", Group: "iter",
		Std: func(re *regexp.Regexp, a *Args) any { return takeK(a.K, pairs(re.FindAllIndex(a.H, -1))) },
		Co: func(re *coregex.Regex, a *Args) any {
			out := [][2]int{}
			for m := range re.AllStringIndex(string(a.H)) {
				if a.K >= 0 && len(out) >= a.K {
					break
				}
				out = append(out, m)
			}
			return out
		}},
	{Name: "All", Group: "iter",
		Std: func(re *regexp.Regexp, a *Args) any { return ListBytes(takeK(a.K, re.FindAll(a.H, -1))) },
		Co: func(re *coregex.Regex, a *Args) any {
			out := [][]byte{}
			for m := range re.All(a.H) {
				if a.K >= 0 && len(out) >= a.K {
					break
				}
				out = append(out, m)
			}
			return out
		}},
	{Name: "AllString", Group: "iter",
		Std: func(re *regexp.Regexp, a *Args) any {
			return ListStrings(takeK(a.K, re.FindAllString(string(a.H), -1)))
		},
		Co: func(re *coregex.Regex, a *Args) any {
			out := []string{}
			for m := range re.AllString(string(a.H)) {
				if a.K >= 0 && len(out) >= a.K {
					break
				}
				out = append(out, m)
			}
			return out
		}},
	{Name: "AppendAllIndex", Group: "append", UsesN: true,
		Std: stdAppend,
		Co:  func(re *coregex.Regex, a *Args) any { return normPairs(re.AppendAllIndex(dstFor(a), a.H, a.N)) }},
	{Name: "AppendAllStringIndex", Group: "append", UsesN: true,
		Std: stdAppend,
		Co: func(re *coregex.Regex, a *Args) any {
			return normPairs(re.AppendAllStringIndex(dstFor(a), string(a.H), a.N))
		}},

	// ---- C08
	{Name: "ReplaceAll", Group: "replace",
		Std: func(re *regexp.Regexp, a *Args) any { return string(re.ReplaceAll(a.H, []byte(a.Repl))) },
		Co:  func(re *coregex.Regex, a *Args) any { return string(re.ReplaceAll(a.H, []byte(a.Repl))) }},
	{Name: "ReplaceAllString", Group: "replace",
		Std: func(re *regexp.Regexp, a *Args) any { return re.ReplaceAllString(string(a.H), a.Repl) },
		Co:  func(re *coregex.Regex, a *Args) any { return re.ReplaceAllString(string(a.H), a.Repl) }},
	{Name: "ReplaceAllLiteral", Group: "replacelit",
		Std: func(re *regexp.Regexp, a *Args) any { return string(re.ReplaceAllLiteral(a.H, []byte(a.Repl))) },
		Co:  func(re *coregex.Regex, a *Args) any { return string(re.ReplaceAllLiteral(a.H, []byte(a.Repl))) }},
	{Name: "ReplaceAllLiteralString", Group: "replacelit",
		Std: func(re *regexp.Regexp, a *Args) any { return re.ReplaceAllLiteralString(string(a.H), a.Repl) },
		Co:  func(re *coregex.Regex, a *Args) any { return re.ReplaceAllLiteralString(string(a.H), a.Repl) }},
	{Name: "ReplaceAllFunc", Group: "replacefn",
		Std: func(re *regexp.Regexp, a *Args) any { return string(re.ReplaceAllFunc(a.H, fn(a))) },
		Co:  func(re *coregex.Regex, a *Args) any { return string(re.ReplaceAllFunc(a.H, fn(a))) }},
	{Name: "ReplaceAllStringFunc", Group: "replacefn",
		Std: func(re *regexp.Regexp, a *Args) any { return re.ReplaceAllStringFunc(string(a.H), sfn(a)) },
		Co:  func(re *coregex.Regex, a *Args) any { return re.ReplaceAllStringFunc(string(a.H), sfn(a)) }},
	{Name: "Split", Group: "split", UsesN: true,
		Std: func(re *regexp.Regexp, a *Args) any { return re.Split(string(a.H), a.N) },
		Co:  func(re *coregex.Regex, a *Args) any { return re.Split(string(a.H), a.N) }},
}

// APIByName indexes APIs.
var APIByName = func() map[string]*API {
	m := map[string]*API{}
	for i := range APIs {
		m[APIs[i].Name] = &APIs[i]
	}
	return m
}()

// APIsOfGroups returns the APIs whose group is listed.
func APIsOfGroups(groups ...string) []*API {
	var out []*API
	for i := range APIs {
		for _, g := range groups {
			if APIs[i].Group == g {
				out = append(out, &APIs[i])
			}
		}
	}
	return out
}
