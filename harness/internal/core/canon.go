// Package core holds the case model, the API tables (stdlib side and coregex side), the
// canonical result encoding and the discrepancy classifier used by the differential and
// metamorphic properties.
package core

import (
	"fmt"
	"strconv"
	"strings"
)

// Canon renders an API result in a canonical textual form. Distinctions that carry
// meaning in the stdlib contract are kept (nil []byte vs empty []byte inside submatch
// vectors; nil vs non-nil for "no match" of the singular Find* functions); the
// nil-vs-empty distinction of a *top-level list of matches* is not (both are the empty
// sequence), see DESIGN.md section 13.
func Canon(v any) string {
	var sb strings.Builder
	canon(&sb, v, true)
	return sb.String()
}

func canon(sb *strings.Builder, v any, top bool) {
	switch x := v.(type) {
	case nil:
		sb.WriteString("nil")
	case bool:
		sb.WriteString(strconv.FormatBool(x))
	case int:
		sb.WriteString(strconv.Itoa(x))
	case string:
		sb.WriteString(strconv.Quote(x))
	case error:
		if x == nil {
			sb.WriteString("noerr")
		} else {
			sb.WriteString("err(" + strconv.Quote(x.Error()) + ")")
		}
	case []byte:
		if x == nil {
			sb.WriteString("nil")
		} else {
			sb.WriteString("b" + strconv.Quote(string(x)))
		}
	case []int:
		if x == nil {
			sb.WriteString("nil")
			return
		}
		sb.WriteByte('[')
		for i, e := range x {
			if i > 0 {
				sb.WriteByte(' ')
			}
			sb.WriteString(strconv.Itoa(e))
		}
		sb.WriteByte(']')
	case [2]int:
		fmt.Fprintf(sb, "[%d %d]", x[0], x[1])
	case [][2]int:
		sb.WriteByte('{')
		for i, e := range x {
			if i > 0 {
				sb.WriteByte(' ')
			}
			canon(sb, e, false)
		}
		sb.WriteByte('}')
	case [][]int:
		sb.WriteByte('{')
		for i, e := range x {
			if i > 0 {
				sb.WriteByte(' ')
			}
			canon(sb, e, false)
		}
		sb.WriteByte('}')
	case []string:
		if x == nil && !top {
			sb.WriteString("nil")
			return
		}
		if x == nil && top {
			sb.WriteString("nil")
			return
		}
		sb.WriteByte('{')
		for i, e := range x {
			if i > 0 {
				sb.WriteByte(' ')
			}
			sb.WriteString(strconv.Quote(e))
		}
		sb.WriteByte('}')
	case [][]byte:
		if x == nil {
			sb.WriteString("nil")
			return
		}
		sb.WriteByte('{')
		for i, e := range x {
			if i > 0 {
				sb.WriteByte(' ')
			}
			canon(sb, e, false)
		}
		sb.WriteByte('}')
	case [][]string:
		sb.WriteByte('{')
		for i, e := range x {
			if i > 0 {
				sb.WriteByte(' ')
			}
			canon(sb, e, false)
		}
		sb.WriteByte('}')
	case [][][]byte:
		sb.WriteByte('{')
		for i, e := range x {
			if i > 0 {
				sb.WriteByte(' ')
			}
			canon(sb, e, false)
		}
		sb.WriteByte('}')
	case []any:
		sb.WriteByte('(')
		for i, e := range x {
			if i > 0 {
				sb.WriteString(", ")
			}
			canon(sb, e, false)
		}
		sb.WriteByte(')')
	default:
		fmt.Fprintf(sb, "%#v", v)
	}
}

// List wraps a list-of-matches result so that nil and empty are the same sequence.
// (Used by enumeration APIs: [][]byte, []string at top level.)
func ListBytes(x [][]byte) any {
	if len(x) == 0 {
		return [][]byte{}
	}
	return x
}

// ListStrings normalises nil/empty for a top-level list of strings.
func ListStrings(x []string) any {
	if len(x) == 0 {
		return []string{}
	}
	return x
}
