package props

import (
	"encoding/json"
	"fmt"
	"regexp"
	"regexp/syntax"

	"pgregory.net/rapid"

	"github.com/coregx/coregex/meta"
	"github.com/coregx/coregex/nfa"

	"verif/harness/internal/core"
	"verif/harness/internal/feat"
	"verif/harness/internal/gen"
)

// C19: specialised fast paths are exact on every pattern they accept.

type c19Case struct {
	Prop    string   `json:"property"`
	Pattern string   `json:"pattern"`
	Hays    []string `json:"haystacks"` // Go-quoted
	Family  string   `json:"template"`
	Mutated int      `json:"mutated"`
}

type c19 struct{}

func NewC19() core.Property { return &c19{} }
func (*c19) ID() string     { return "C19" }
func (*c19) Rule() string {
	return "patterns generated around each fast path's own applicability test (strategy templates + 0-3 whitelist-boundary mutations); a fast path X is exercised only when applicable_X(p) holds (nfa.IsSimpleCharClassPlus / IsCompositeCharClassPattern / IsCompositeSequenceDFAPattern / IsBranchDispatchPattern, meta.DetectAnchoredLiteral != nil, nfa.ExtractFirstBytes != nil, meta.Compile(p).Strategy() for the meta-level searchers); X is driven directly (NewCharClassSearcher, NewCompositeSearcher, NewCompositeSequenceDFA, NewBranchDispatcher, MatchAnchoredLiteral, first-byte set) and end to end through meta.Engine.IsMatch/FindIndicesAt/FindSubmatchAt for EVERY start offset on 2-4 haystacks derived from the pattern, against regexp (offset searches via \\A(?s:.{k})(?s:.*?)(P)). Non-trivial: the mutated pattern differs from its template in >= 1 node and is still accepted by some fast path; distinct by hash(pattern, haystacks)."
}
func (*c19) Decode(raw json.RawMessage) (any, error) {
	var c c19Case
	if err := json.Unmarshal(raw, &c); err != nil {
		return nil, err
	}
	return &c, nil
}

var coreStrategies = map[string]bool{"UseNFA": true, "UseDFA": true, "UseBoth": true, "UseBoundedBacktracker": true, "UseOnePass": true}

func (*c19) Gen(t core.RT, env *core.Env) any {
	o := gen.AllOpts()
	// families around the fast paths
	fams := []int{0, 1, 2, 3, 4, 5, 6, 7, 8, 9, 10, 11, 12, 13}
	fam := fams[rapid.IntRange(0, len(fams)-1).Draw(t, "fam")]
	p, name := gen.Template(t, o, fam)
	q, k := gen.Mutate(t, o, p)
	if _, err := syntax.Parse(q, syntax.Perl); err != nil {
		q, k = p, 0
	}
	if _, err := syntax.Parse(q, syntax.Perl); err != nil {
		q = "[a-z]+"
	}
	c := &c19Case{Prop: "C19", Pattern: q, Family: name, Mutated: k}
	re, _ := syntax.Parse(q, syntax.Perl)
	n := rapid.IntRange(2, 4).Draw(t, "nh")
	for i := 0; i < n; i++ {
		h := gen.Haystack(t, re, gen.HOpts{NonASCII: true, Invalid: rapid.IntRange(0, 4).Draw(t, "inv") == 0, Long: false, MaxLen: 80})
		c.Hays = append(c.Hays, core.QuoteHay(h))
	}
	return c
}

func (p *c19) Run(ci any, env *core.Env) *core.Failure {
	c := ci.(*c19Case)
	env.Eval()
	env.Sample(c)
	re, err := syntax.Parse(c.Pattern, syntax.Perl)
	if err != nil {
		return nil
	}
	if _, err := regexp.Compile(c.Pattern); err != nil {
		return nil
	}
	feats := feat.Pattern(re).List()
	ref := &refCache{pat: c.Pattern, at: map[int]*regexp.Regexp{}, anch: map[int]*regexp.Regexp{}, exact: map[[2]int]*regexp.Regexp{}}
	var fail *core.Failure
	curHay := ""
	report := func(path, api string, h []byte, at int, exp, got any) bool {
		env.Count("path", path)
		es, gs := core.Canon(exp), core.Canon(got)
		if es == gs {
			return true
		}
		kind := core.KindOf("find", exp, got)
		if _, ok := exp.(bool); ok {
			kind = core.KindOf("match", exp, got)
		}
		d := &core.Disc{Prop: "C19", API: api, Group: "fastpath", Mode: "first", Kind: kind, Layer: "fastpath", Strategy: path, Feats: feats, Hay: curHay,
			Expected: es, Observed: gs, Detail: fmt.Sprintf("haystack=%q at=%d", h, at)}
		if f := env.Known(d, c); f != nil {
			fail = f
			return false
		}
		return true
	}

	// ---- applicability and construction
	var ccs *nfa.CharClassSearcher
	var comp *nfa.CompositeSearcher
	var cdfa *nfa.CompositeSequenceDFA
	var bd *nfa.BranchDispatcher
	var ali *meta.AnchoredLiteralInfo
	var fbs *nfa.FirstByteSet
	var eng *meta.Engine
	strat := ""
	startAnchored := false
	if msg, pan := catchPanic(func() {
		parse := func() *syntax.Regexp { r, _ := syntax.Parse(c.Pattern, syntax.Perl); return r }
		if nfa.IsSimpleCharClassPlus(parse()) {
			if rg := nfa.ExtractCharClassRanges(parse()); rg != nil {
				ccs = nfa.NewCharClassSearcher(rg, 1)
			}
		}
		if nfa.IsCompositeCharClassPattern(parse()) {
			comp = nfa.NewCompositeSearcher(parse())
		}
		if nfa.IsCompositeSequenceDFAPattern(parse()) {
			cdfa = nfa.NewCompositeSequenceDFA(parse())
		}
		if nfa.IsBranchDispatchPattern(parse()) {
			bd = nfa.NewBranchDispatcher(parse())
		}
		startAnchored = nfa.IsPatternStartAnchored(parse())
		if startAnchored && nfa.IsPatternEndAnchored(parse()) {
			ali = meta.DetectAnchoredLiteral(parse())
		}
		if startAnchored {
			fbs = nfa.ExtractFirstBytes(parse())
		}
		if e, err := meta.Compile(c.Pattern); err == nil {
			eng = e
			strat = e.Strategy().String()
		}
	}); pan {
		return env.Known(&core.Disc{Prop: "C19", Kind: "BUILD_PANIC", Group: "fastpath", Feats: feats, Detail: msg}, c)
	}
	accepted := ccs != nil || comp != nil || cdfa != nil || bd != nil || ali != nil || fbs != nil || (eng != nil && !coreStrategies[strat])
	env.Count("applicable", fmt.Sprint(accepted))
	if !accepted {
		return nil
	}
	env.Count("strategy", strat)
	env.Count("family", c.Family)
	if c.Mutated > 0 {
		env.NonTrivial(core.HashOf(c.Pattern, fmt.Sprint(c.Hays)))
	}

	for _, q := range c.Hays {
		h := (&core.DiffCase{HayQ: q}).Hay()
		curHay = feat.HayClass(h)
		for at := 0; at <= len(h) && fail == nil; at++ {
			if !runeBoundary(h, at) {
				continue
			}
			want := ref.searchAt(h, at)
			if ref.bad {
				return nil
			}
			wspan := span(want)
			msg, pan := catchPanic(func() {
				if ccs != nil {
					s, e, ok := ccs.SearchAt(h, at)
					report("CharClassSearcher", "CharClassSearcher.SearchAt", h, at, wspan, trip(s, e, ok))
					if at == 0 {
						report("CharClassSearcher", "CharClassSearcher.IsMatch", h, at, want != nil, ccs.IsMatch(h))
						// streaming enumeration
						all := ccs.FindAllIndices(h, nil)
						std := regexp.MustCompile(c.Pattern).FindAllIndex(h, -1)
						report("CharClassSearcher", "CharClassSearcher.FindAllIndices", h, at, toPairs2(std), toPairs(all))
						report("CharClassSearcher", "CharClassSearcher.Count", h, at, len(std), ccs.Count(h))
					}
				}
				if comp != nil {
					s, e, ok := comp.SearchAt(h, at)
					report("CompositeSearcher", "CompositeSearcher.SearchAt", h, at, wspan, trip(s, e, ok))
					if at == 0 {
						report("CompositeSearcher", "CompositeSearcher.IsMatch", h, at, want != nil, comp.IsMatch(h))
					}
				}
				if cdfa != nil {
					s, e, ok := cdfa.SearchAt(h, at)
					report("CompositeSequenceDFA", "CompositeSequenceDFA.SearchAt", h, at, wspan, trip(s, e, ok))
					if at == 0 {
						report("CompositeSequenceDFA", "CompositeSequenceDFA.IsMatch", h, at, want != nil, cdfa.IsMatch(h))
					}
				}
				if at == 0 {
					if bd != nil {
						s, e, ok := bd.Search(h)
						report("BranchDispatcher", "BranchDispatcher.Search", h, at, wspan, trip(s, e, ok))
						report("BranchDispatcher", "BranchDispatcher.IsMatch", h, at, want != nil, bd.IsMatch(h))
					}
					if ali != nil {
						report("AnchoredLiteral", "MatchAnchoredLiteral", h, at, want != nil, meta.MatchAnchoredLiteral(h, ali))
					}
					if fbs != nil && len(h) > 0 && want != nil && want[0] == 0 && want[1] > 0 {
						// rejection filter soundness: a match at 0 implies its first byte is in the set
						report("FirstByteSet", "FirstByteSet.Contains", h, at, true, fbs.Contains(h[0]))
					}
				}
				if eng != nil && !coreStrategies[strat] {
					s, e, ok := eng.FindIndicesAt(h, at)
					report(strat, "Engine.FindIndicesAt", h, at, wspan, trip(s, e, ok))
					report(strat, "Engine.FindAt", h, at, wspan, matchSpan(eng.FindAt(h, at)))
					report(strat, "Engine.FindSubmatchAt", h, at, want, capsFlat(eng.FindSubmatchAt(h, at)))
					if at == 0 {
						report(strat, "Engine.IsMatch", h, at, want != nil, eng.IsMatch(h))
						report(strat, "Engine.Count", h, at, len(regexp.MustCompile(c.Pattern).FindAllIndex(h, -1)), eng.Count(h, -1))
					}
				}
			})
			if pan && fail == nil {
				d := &core.Disc{Prop: "C19", API: "fastpath", Group: "fastpath", Mode: "first", Kind: "PANIC", Layer: "fastpath", Strategy: strat, Feats: feats, Hay: curHay,
					Detail: fmt.Sprintf("haystack=%q at=%d panic=%s", h, at, msg)}
				if f := env.Known(d, c); f != nil {
					return f
				}
			}
		}
		if fail != nil {
			break
		}
	}
	return fail
}
