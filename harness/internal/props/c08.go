package props

import (
	"bytes"
	"encoding/json"
	"fmt"
	"regexp/syntax"
	"strings"

	"pgregory.net/rapid"

	"verif/harness/internal/core"
	"verif/harness/internal/feat"
	"verif/harness/internal/gen"
)

// C08: Replace*, Expand*, Split vs regexp.

type c08 struct{}

func NewC08() core.Property { return &c08{} }
func (*c08) ID() string     { return "C08" }
func (*c08) Rule() string {
	return "patterns biased to captures and empty matches x sources derived from the pattern x replacement templates from the Expand grammar ($1 $10 ${1} ${name} $name $$ $x ${ $} ...) x replacement functions x Split n in {-2,-1,0,1,2,3,pieces}; all nine functions compared byte-for-byte with regexp, plus fresh-copy and Expand-with-hand-built-match-vector checks. Non-trivial: at least one match and a template containing '$', or Split producing >= 2 pieces; distinct by hash(pattern, source, template, n)."
}
func (*c08) Decode(raw json.RawMessage) (any, error) { return core.DecodeDiffCase(raw) }

var tmplPieces = []string{"$1", "$0", "${1}", "$2", "${2}", "$10", "${10}", "$n0", "${n0}", "${n1}", "$n1x", "$$", "$x", "${", "$}", "$", "$1x", "${1}x", "$-", "${1", "${}", "$$1", "\\$1", "${n0}${1}", "$3", "$11", "${-1}", "${01}", "$1$2", "${1a}", "$_", "${_}"}

// Template draws a replacement template.
func drawTemplate(t core.RT) string {
	n := rapid.IntRange(0, 4).Draw(t, "tn")
	var sb strings.Builder
	for i := 0; i < n; i++ {
		switch rapid.IntRange(0, 2).Draw(t, "tk") {
		case 0:
			sb.WriteString([]string{"x", "-", "<", ">", " ", "é", "ab"}[rapid.IntRange(0, 6).Draw(t, "tl")])
		default:
			sb.WriteString(tmplPieces[rapid.IntRange(0, len(tmplPieces)-1).Draw(t, "tp")])
		}
	}
	return sb.String()
}

func (*c08) Gen(t core.RT, env *core.Env) any {
	o := gen.AllOpts()
	pi, h := drawPatternHay(t, o, gen.HOpts{NonASCII: true, Invalid: true, Long: false, MaxLen: 300})
	c := &core.DiffCase{Prop: "C08", Pattern: pi.Pattern, HayQ: core.QuoteHay(h), Source: pi.Source, Mutated: pi.Mutated}
	c.Repl = drawTemplate(t)
	c.Fn = rapid.IntRange(0, len(core.ReplFuncs)-1).Draw(t, "fn")
	c.N = []int{-1, -2, 0, 1, 2, 3, 5}[rapid.IntRange(0, 6).Draw(t, "n")]
	c.K = rapid.IntRange(0, 5).Draw(t, "mv") // match-vector variant for Expand
	return c
}

func (p *c08) Run(ci any, env *core.Env) *core.Failure {
	c := ci.(*core.DiffCase)
	env.Eval()
	env.Sample(c)
	cc, pan := core.CompileBoth(c.Pattern, c.Mode)
	if pan != nil {
		return env.Known(&core.Disc{Prop: "C08", Kind: "COMPILE_PANIC", Detail: pan.(string)}, c)
	}
	if cc == nil || cc.Co == nil {
		env.Count("domain", "rejected")
		return nil
	}
	h := c.Hay()
	env.Count("strategy", cc.Strategy)
	env.Count("hay_class", feat.HayClass(h))
	a := &core.Args{H: h, N: c.N, Fn: c.Fn, Repl: c.Repl}
	nm := len(cc.Std.FindAllIndex(h, -1))
	if nm >= 1 && strings.Contains(c.Repl, "$") || len(cc.Std.Split(string(h), c.N)) >= 2 {
		env.NonTrivial(core.HashOf(c.Pattern, c.HayQ, c.Repl, fmt.Sprint(c.N, c.Fn)))
	}
	var apis []*core.API
	if c.API != "" && c.API != "Expand" && c.API != "ExpandString" && c.API != "FreshCopy" {
		if api := core.APIByName[c.API]; api != nil {
			apis = []*core.API{api}
		}
	} else if c.API == "" {
		apis = core.APIsOfGroups("replace", "replacelit", "replacefn", "split")
	}
	if f := core.DiffAPIs(env, "C08", cc, apis, a, c); f != nil {
		return f
	}
	mk := func(api, kind, exp, got string) *core.Failure {
		d := &core.Disc{Prop: "C08", API: api, Group: "expand", Mode: "first", Kind: kind, Layer: "api", Strategy: cc.Strategy, Feats: cc.Feats, Hay: feat.HayClass(h), Expected: exp, Observed: got}
		if api == "FreshCopy" {
			d.Group = "replace"
		}
		return env.Known(d, c)
	}
	// Expand / ExpandString judged on their own: the match vector comes from the reference
	if c.API == "" || c.API == "Expand" || c.API == "ExpandString" {
		m := cc.Std.FindSubmatchIndex(h)
		switch c.K {
		case 1:
			m = nil
		case 2:
			if len(m) > 2 {
				m = m[:2] // shorter than the template may ask for
			}
		case 3:
			if len(m) >= 4 {
				m = append([]int(nil), m...)
				m[2], m[3] = -1, -1
			}
		case 4:
			m = []int{0, 0}
		}
		for _, dst := range [][]byte{nil, []byte("dst:")} {
			exp := cc.Std.Expand(append([]byte(nil), dst...), []byte(c.Repl), h, m)
			got, pan := core.SafeCall(func() any { return cc.Co.Expand(append([]byte(nil), dst...), []byte(c.Repl), h, m) })
			env.Count("api", "Expand")
			if pan != "" {
				if f := mk("Expand", "PANIC", core.Canon(exp), "panic: "+pan); f != nil {
					return f
				}
			} else if !sameBytes(exp, got) {
				if f := mk("Expand", "DIFF", core.Canon(exp), core.Canon(got)); f != nil {
					return f
				}
			}
			exps := cc.Std.ExpandString(append([]byte(nil), dst...), c.Repl, string(h), m)
			gots, pan := core.SafeCall(func() any { return cc.Co.ExpandString(append([]byte(nil), dst...), c.Repl, string(h), m) })
			env.Count("api", "ExpandString")
			if pan != "" {
				if f := mk("ExpandString", "PANIC", core.Canon(exps), "panic: "+pan); f != nil {
					return f
				}
			} else if !sameBytes(exps, gots) {
				if f := mk("ExpandString", "DIFF", core.Canon(exps), core.Canon(gots)); f != nil {
					return f
				}
			}
		}
	}
	// fresh copy when nothing matches (and in general: the result never aliases src)
	if (c.API == "" || c.API == "FreshCopy") && len(h) > 0 {
		src := append([]byte(nil), h...)
		outs := [][]byte{}
		_, pan := core.SafeCall(func() any {
			outs = append(outs, cc.Co.ReplaceAll(src, []byte(c.Repl)), cc.Co.ReplaceAllLiteral(src, []byte(c.Repl)), cc.Co.ReplaceAllFunc(src, core.ReplFuncs[0]))
			return nil
		})
		if pan == "" {
			for _, o := range outs {
				for i := range o {
					o[i] ^= 0xff
				}
			}
			if !bytes.Equal(src, h) {
				if f := mk("FreshCopy", "ALIAS", "result is a fresh copy", "mutating the result changed src"); f != nil {
					return f
				}
			}
		}
	}
	return nil
}

var _ = syntax.Perl

// sameBytes compares two []byte results by content (nil and empty are the same bytes).
func sameBytes(a, b any) bool {
	x, _ := a.([]byte)
	y, _ := b.([]byte)
	return bytes.Equal(x, y)
}
