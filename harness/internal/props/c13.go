package props

import (
	"encoding/json"
	"fmt"
	"regexp/syntax"
	"runtime"
	"strings"

	"pgregory.net/rapid"

	"github.com/coregx/coregex"
	"github.com/coregx/coregex/meta"

	"verif/harness/internal/core"
	"verif/harness/internal/feat"
	"verif/harness/internal/gen"
)

// C13: results do not depend on what the Regex was used for before.

type histOp struct {
	Kind string `json:"op"`            // call | repeat | gc | burst | wrap
	Hay  int    `json:"hay,omitempty"` // index into Hays
	N    int    `json:"n,omitempty"`
}

type histCase struct {
	Prop    string   `json:"property"`
	Pattern string   `json:"pattern"`
	Mode    string   `json:"mode,omitempty"`
	Tiny    bool     `json:"tiny_dfa,omitempty"` // compiled with minimal DFA limits
	Hays    []string `json:"haystacks"`          // Go-quoted
	Ops     []histOp `json:"ops"`
	Source  string   `json:"source,omitempty"`
}

type c13 struct{}

func NewC13() core.Property { return &c13{} }
func (*c13) ID() string     { return "C13" }
func (*c13) Rule() string {
	return "operation sequences (5-40 steps, shrunk as one value) on one long-lived Regex: calls of the API basket (Match, FindIndex, FindSubmatchIndex, FindAllIndex(n), FindAllSubmatchIndex(n), Count, ReplaceAll) on a pool of generated haystacks (short, long, one that overflows the backtracker's visited cap, blow-up patterns (?:a|b)*a(?:a|b){k} on long a/b noise to force DFA cache clears), repeats of the previous call, runtime.GC() twice, bursts of trivial searches, and (verif hook) setting the backtracker generation to 65533 so that the 16-bit epoch wraps inside the sequence; also values compiled with minimal DFA limits. Invariant after every call: result == result of the same call on a freshly compiled value, and repeating a call returns the same. Non-trivial: a state-disturbing action (wrap, GC, burst, observed cache clear, long haystack) precedes a compared call; distinct by hash of the whole case."
}
func (*c13) Decode(raw json.RawMessage) (any, error) {
	var c histCase
	if err := json.Unmarshal(raw, &c); err != nil {
		return nil, err
	}
	return &c, nil
}

func (*c13) Gen(t core.RT, env *core.Env) any {
	c := &histCase{Prop: "C13"}
	blow := rapid.IntRange(0, 5).Draw(t, "blow") == 0
	var re *syntax.Regexp
	if blow {
		k := rapid.IntRange(8, 15).Draw(t, "k")
		c.Pattern = fmt.Sprintf("(?:a|b)*a(?:a|b){%d}", k)
		if rapid.Bool().Draw(t, "tail") {
			c.Pattern += "c"
		}
		c.Source = "blowup"
	} else {
		pi := gen.Pattern(t, gen.AllOpts(), 1, 1)
		c.Pattern, c.Source = pi.Pattern, pi.Source
	}
	re, _ = syntax.Parse(c.Pattern, syntax.Perl)
	if rapid.IntRange(0, 5).Draw(t, "longest") == 0 {
		c.Mode = "longest"
	}
	c.Tiny = rapid.IntRange(0, 3).Draw(t, "tiny") == 0
	nh := rapid.IntRange(2, 5).Draw(t, "nh")
	for i := 0; i < nh; i++ {
		var h []byte
		switch {
		case blow && i == 0:
			// long a/b noise
			n := rapid.IntRange(2000, 30000).Draw(t, "bl")
			if env.Thorough {
				n *= 4
			}
			h = make([]byte, n)
			x := rapid.Uint64().Draw(t, "bs")
			for j := range h {
				x ^= x << 13
				x ^= x >> 7
				x ^= x << 17
				h[j] = "ab"[x&1]
			}
		case i == 1:
			// long haystack pumped from a sample (visited-cap overflow / engine switches)
			base := gen.Haystack(t, re, gen.HOpts{NonASCII: true, Invalid: false, Long: true, MaxLen: 4096})
			rep := rapid.IntRange(1, 64).Draw(t, "rep")
			limit := 300000
			if re != nil && feat.Pattern(re)["can_match_empty"] {
				limit = 3000 // every position matches: enumeration cost is per position, keep cases cheap
			}
			for j := 0; j < rep && len(h) < limit; j++ {
				h = append(h, base...)
			}
		default:
			h = gen.Haystack(t, re, gen.HOpts{NonASCII: true, Invalid: true, Long: true, MaxLen: 4096})
		}
		c.Hays = append(c.Hays, core.QuoteHay(h))
	}
	nops := rapid.IntRange(5, 40).Draw(t, "nops")
	for i := 0; i < nops; i++ {
		switch pickIdx(t, "op", 10, 3, 2, 2, 2) {
		case 0:
			c.Ops = append(c.Ops, histOp{Kind: "call", Hay: rapid.IntRange(0, nh-1).Draw(t, "h"), N: []int{-1, -1, 1, 2, 0}[rapid.IntRange(0, 4).Draw(t, "n")]})
		case 1:
			c.Ops = append(c.Ops, histOp{Kind: "repeat"})
		case 2:
			c.Ops = append(c.Ops, histOp{Kind: "gc"})
		case 3:
			c.Ops = append(c.Ops, histOp{Kind: "burst", N: rapid.IntRange(10, 3000).Draw(t, "bn")})
		default:
			c.Ops = append(c.Ops, histOp{Kind: "wrap"})
		}
	}
	return c
}

func tinyConfig() meta.Config {
	cfg := meta.DefaultConfig()
	cfg.MaxDFAStates = 2
	cfg.DeterminizationLimit = 10
	return cfg
}

func compileHist(c *histCase) (*coregex.Regex, error) {
	var r *coregex.Regex
	var err error
	if c.Tiny {
		r, err = coregex.CompileWithConfig(c.Pattern, tinyConfig())
	} else {
		r, err = coregex.Compile(c.Pattern)
	}
	if err == nil && c.Mode == "longest" {
		r.Longest()
	}
	return r, err
}

func basket(r *coregex.Regex, h []byte, n int) string {
	a := core.CoAnswers(r, h, n)
	return core.Canon([]any{a.Match, a.Find, a.Sub, a.All, a.AllSub, a.Count, r.ReplaceAllString(string(h), "<$0>")})
}

func (p *c13) Run(ci any, env *core.Env) *core.Failure {
	c := ci.(*histCase)
	env.Eval()
	env.Sample(summarizeHist(c))
	re, err := syntax.Parse(c.Pattern, syntax.Perl)
	if err != nil {
		env.Count("domain", "rejected_by_syntax")
		return nil
	}
	feats := feat.Pattern(re).List()
	var r *coregex.Regex
	if msg, pan := catchPanic(func() { r, err = compileHist(c) }); pan {
		return env.Known(&core.Disc{Prop: "C13", Kind: "COMPILE_PANIC", Detail: msg}, c)
	}
	if err != nil || r == nil {
		env.Count("domain", "rejected_by_coregex")
		return nil
	}
	strat := r.VerifEngine().Strategy().String()
	env.Count("strategy", strat)
	hays := make([][]byte, len(c.Hays))
	for i, q := range c.Hays {
		hays[i] = (&core.DiffCase{HayQ: q}).Hay()
	}
	fresh := map[string]string{}
	var disturbed []string
	last := histOp{Kind: ""}
	lastRes := ""
	wrappedOnce := false
	mk := func(kind string, op histOp, exp, got string) *core.Failure {
		hc := "ascii"
		if op.Hay < len(hays) {
			hc = feat.HayClass(hays[op.Hay])
		}
		d := &core.Disc{Prop: "C13", API: "basket", Group: "history", Mode: modeName(c.Mode), Kind: kind, Layer: "meta", Strategy: strat, Feats: feats, Hay: hc,
			Site: strings.Join(disturbed, "+") + tinyTag(c), Expected: exp, Observed: got}
		return env.Known(d, c)
	}
	for _, op := range c.Ops {
		env.Count("ops", op.Kind)
		switch op.Kind {
		case "gc":
			runtime.GC()
			runtime.GC()
			disturbed = appendUniq(disturbed, "gc")
		case "burst":
			if msg, pan := catchPanic(func() {
				for i := 0; i < op.N; i++ {
					r.MatchString("ab")
					r.FindStringIndex("")
				}
			}); pan {
				return mk("PANIC", op, "", msg)
			}
			disturbed = appendUniq(disturbed, "burst")
		case "wrap":
			// The hook may only move the epoch FORWARD, once: setting the same generation twice
			// would re-use generation values without the clear the library performs on a real
			// wrap-around and manufacture a stale-visited state (harness-made false alarm,
			// DESIGN.md section 13). Later wrap-arounds in the sequence happen for real.
			if wrappedOnce {
				continue
			}
			wrappedOnce = true
			if r.VerifEngine().VerifSnapshot().BacktrackerGeneration < 60000 && r.VerifEngine().VerifSetBacktrackerGeneration(65533) {
				disturbed = appendUniq(disturbed, "wrap")
				env.Count("disturb", "wrap_applied")
			}
		case "call", "repeat":
			cur := op
			if op.Kind == "repeat" {
				if last.Kind == "" {
					continue
				}
				cur = last
			}
			if cur.Hay >= len(hays) {
				continue
			}
			h := hays[cur.Hay]
			key := fmt.Sprint(cur.Hay, "/", cur.N)
			var got string
			if msg, pan := catchPanic(func() { got = basket(r, h, cur.N) }); pan {
				if f := mk("PANIC", cur, "", msg); f != nil {
					return f
				}
				continue
			}
			want, ok := fresh[key]
			if !ok {
				if msg, pan := catchPanic(func() {
					fr, err := compileHist(c)
					if err == nil {
						want = basket(fr, h, cur.N)
					}
				}); pan {
					if f := mk("PANIC", cur, "", "fresh value: "+msg); f != nil {
						return f
					}
					continue
				}
				fresh[key] = want
			}
			if len(h) > 4096 {
				disturbed = appendUniq(disturbed, "longhay")
			}
			snap := r.VerifEngine().VerifSnapshot()
			if snap.DFACacheClears > 0 {
				disturbed = appendUniq(disturbed, "cacheclear")
				env.Count("disturb", "cache_clear_observed")
			}
			if len(disturbed) > 0 {
				b, _ := json.Marshal(c)
				env.NonTrivial(core.HashOf(string(b)))
			}
			if got != want {
				if f := mk("HISTORY", cur, want, got); f != nil {
					return f
				}
			}
			if op.Kind == "repeat" && got != lastRes && lastRes != "" {
				if f := mk("REPEAT", cur, lastRes, got); f != nil {
					return f
				}
			}
			last, lastRes = cur, got
		}
	}
	return nil
}

func appendUniq(l []string, s string) []string {
	for _, x := range l {
		if x == s {
			return l
		}
	}
	return append(l, s)
}

// summarizeHist shortens haystacks for the evidence samples.
func summarizeHist(c *histCase) any {
	cp := *c
	cp.Hays = nil
	for _, h := range c.Hays {
		if len(h) > 80 {
			h = h[:80] + fmt.Sprintf("...(%d quoted bytes)", len(h))
		}
		cp.Hays = append(cp.Hays, h)
	}
	return &cp
}

func tinyTag(c *histCase) string {
	if c.Tiny {
		return "+tinydfa"
	}
	return ""
}
