package props

import (
	"encoding/json"
	"regexp"
	"regexp/syntax"

	"pgregory.net/rapid"

	"github.com/coregx/coregex"

	"verif/harness/internal/core"
	"verif/harness/internal/feat"
	"verif/harness/internal/gen"
)

// C10: leftmost-longest mode (Longest(), CompilePOSIX) and its isolation per value.

type c10 struct{}

func NewC10() core.Property { return &c10{} }
func (*c10) ID() string     { return "C10" }
func (*c10) Rule() string {
	return "patterns biased to first/longest disagreement (prefix-related alternations, lazy quantifiers) in mode longest (Perl syntax + Longest()) or posix (POSIX-valid grammar + CompilePOSIX); every API group of C01-C04 and C08 compared with regexp in the same mode; isolation laws for Copy / second Compile / default-mode results. Non-trivial: leftmost-first and leftmost-longest reference answers differ on the haystack; distinct by hash(mode, pattern, haystack)."
}
func (*c10) Decode(raw json.RawMessage) (any, error) { return core.DecodeDiffCase(raw) }

var prefixAlts = []string{"a|ab", "a|ab|abc", "ab|a", "(a|ab)(c|bcd)", "a*?", "a+?b*", "(a*)(a|b)*", "x*|y", "(?:a|ab)+", "a??b", "(a+?)(b*)", "a|aa|aaa"}

func (*c10) Gen(t core.RT, env *core.Env) any {
	mode := []string{"longest", "posix"}[rapid.IntRange(0, 1).Draw(t, "mode")]
	o := gen.AllOpts()
	if mode == "posix" {
		o = gen.Opts{Captures: true, Anchors: true, Empty: false, POSIX: true, MaxDepth: 4}
	}
	var pat string
	src := "grammar"
	if rapid.IntRange(0, 3).Draw(t, "pk") == 0 {
		pat = prefixAlts[rapid.IntRange(0, len(prefixAlts)-1).Draw(t, "pa")]
		if mode == "posix" {
			pat = prefixAlts[rapid.IntRange(0, 3).Draw(t, "pa2")]
		}
		src = "prefix-alt"
		if rapid.Bool().Draw(t, "more") {
			extra := gen.Grammar(t, o)
			if _, err := syntax.Parse("(?:"+pat+")"+extra, syntax.Perl); err == nil {
				pat = "(?:" + pat + ")" + extra
			}
		}
	} else if mode == "posix" {
		pat = gen.Grammar(t, o)
	} else {
		pi := gen.Pattern(t, o, 1, 1)
		pat, src = pi.Pattern, pi.Source
	}
	flags := syntax.Flags(syntax.Perl)
	if mode == "posix" {
		flags = syntax.POSIX
	}
	re, err := syntax.Parse(pat, flags)
	if err != nil {
		pat = "a|ab"
		re, _ = syntax.Parse(pat, flags)
	}
	h := gen.Haystack(t, re, gen.HOpts{NonASCII: true, Invalid: true, Long: false, MaxLen: 300})
	c := &core.DiffCase{Prop: "C10", Pattern: pat, Mode: mode, HayQ: core.QuoteHay(h), Source: src, N: -1, K: -1}
	c.N = []int{-1, -1, -1, 0, 1, 2}[rapid.IntRange(0, 5).Draw(t, "n")]
	c.Repl = drawTemplate(t)
	c.Fn = rapid.IntRange(0, len(core.ReplFuncs)-1).Draw(t, "fn")
	c.Dst = rapid.IntRange(0, 2).Draw(t, "dst")
	return c
}

func (p *c10) Run(ci any, env *core.Env) *core.Failure {
	c := ci.(*core.DiffCase)
	env.Eval()
	env.Sample(c)
	cc, pan := core.CompileBoth(c.Pattern, c.Mode)
	if pan != nil {
		return env.Known(&core.Disc{Prop: "C10", Kind: "COMPILE_PANIC", Mode: c.Mode, Detail: pan.(string)}, c)
	}
	if cc == nil {
		env.Count("domain", "rejected_by_regexp")
		return nil
	}
	if cc.Co == nil {
		env.Count("domain", "rejected_by_coregex_only")
		return nil
	}
	h := c.Hay()
	env.Count("strategy", cc.Strategy)
	env.Count("mode", c.Mode)
	env.Count("hay_class", feat.HayClass(h))
	// non-trivial: first-mode and longest-mode reference answers differ
	var first *regexp.Regexp
	if c.Mode == "posix" {
		// the POSIX pattern in leftmost-first mode
		first, _ = regexp.Compile(c.Pattern)
	} else {
		first, _ = regexp.Compile(c.Pattern)
	}
	if first != nil && core.Canon(first.FindAllSubmatchIndex(h, -1)) != core.Canon(cc.Std.FindAllSubmatchIndex(h, -1)) {
		env.NonTrivial(core.HashOf(c.Mode, c.Pattern, c.HayQ))
		env.Count("modes_differ", "yes")
	}
	a := &core.Args{H: h, N: c.N, K: c.K, Dst: c.Dst, Fn: c.Fn, Repl: c.Repl}
	var apis []*core.API
	if c.API != "" && c.API != "Isolation" {
		if api := core.APIByName[c.API]; api != nil {
			apis = []*core.API{api}
		}
	} else if c.API == "" {
		apis = core.APIsOfGroups("match", "find", "submatch", "findall", "findallsub", "count", "iter", "append", "replace", "replacelit", "replacefn", "split")
	}
	if f := core.DiffAPIs(env, "C10", cc, apis, a, c); f != nil {
		return f
	}
	if (c.API == "" || c.API == "Isolation") && c.Mode == "longest" && first != nil {
		if f := p.isolation(env, c, cc, first, h); f != nil {
			return f
		}
	}
	return nil
}

func snapshot(re *coregex.Regex, h []byte) string {
	return core.Canon([]any{re.Match(h), re.FindIndex(h), re.FindSubmatchIndex(h), re.FindAllIndex(h, -1), re.FindAllSubmatchIndex(h, -1), re.ReplaceAllString(string(h), "<$0>")})
}

func snapshotStd(re *regexp.Regexp, h []byte) string {
	return core.Canon([]any{re.Match(h), re.FindIndex(h), re.FindSubmatchIndex(h), re.FindAllIndex(h, -1), re.FindAllSubmatchIndex(h, -1), re.ReplaceAllString(string(h), "<$0>")})
}

// isolation: Longest on a Copy (or on another Compile of the same text) leaves the original in
// leftmost-first mode, and default-mode results are the same before and after.
func (p *c10) isolation(env *core.Env, c *core.DiffCase, cc *core.Compiled, first *regexp.Regexp, h []byte) *core.Failure {
	var kind, exp, got string
	_, pan := core.SafeCall(func() any {
		re, err := coregex.Compile(c.Pattern)
		if err != nil {
			return nil
		}
		before := snapshot(re, h)
		cp := re.Copy()
		cp.Longest()
		_ = snapshot(cp, h)
		other, _ := coregex.Compile(c.Pattern)
		other.Longest()
		_ = snapshot(other, h)
		after := snapshot(re, h)
		if before != after {
			kind, exp, got = "ISOLATION_BEFORE_AFTER", before, after
			return nil
		}
		// the copy is in longest mode: compare with the longest reference (group find only, to
		// stay independent of other defects): its FindIndex must be the longest-mode FindIndex
		re2 := re.Copy()
		if s := snapshot(re2, h); s != before {
			kind, exp, got = "ISOLATION_COPY_OF_FIRST", before, s
			return nil
		}
		// a Copy of a longest-mode value is longest
		cp2 := cp.Copy()
		if a, b := core.Canon(cp2.FindIndex(h)), core.Canon(cp.FindIndex(h)); a != b {
			kind, exp, got = "ISOLATION_COPY_OF_LONGEST", b, a
		}
		return nil
	})
	if pan != "" {
		kind, exp, got = "PANIC", "", pan
	}
	if kind == "" {
		return nil
	}
	d := &core.Disc{Prop: "C10", API: "Isolation", Group: "isolation", Mode: "longest", Kind: kind, Layer: "api", Strategy: cc.Strategy, Feats: cc.Feats, Hay: feat.HayClass(h), Expected: exp, Observed: got}
	return env.Known(d, c)
}
