package props

import (
	"bytes"
	"encoding/json"
	"fmt"
	"regexp"
	"strings"

	"pgregory.net/rapid"

	"github.com/coregx/coregex/literal"
	"github.com/coregx/coregex/prefilter"

	"verif/harness/internal/core"
	"verif/harness/internal/guard"
)

// C16: prefilters never skip a match; complete prefilters are exact.

type c16Case struct {
	Prop     string   `json:"property"`
	Build    string   `json:"build"`    // builder | teddy | fatteddy | digit | lineanchor | incomplete | tracker
	Lits     []string `json:"literals"` // Go-quoted
	Complete bool     `json:"complete"`
	HayQ     string   `json:"haystack"`
	Slack    int      `json:"slack"`
}

type c16 struct{ pool guard.Pool }

func NewC16() core.Property { return &c16{} }
func (*c16) ID() string     { return "C16" }
func (*c16) Rule() string {
	return "literal sets (1 byte, 1 string, 2-8 / 9-32 / 33-64 / >64 literals, lengths 1-70, shared prefixes, one literal a prefix of another, equal nibbles, duplicates) built through prefilter.NewBuilder(...).Build(), NewTeddy, NewFatTeddy, NewDigitPrefilter, WrapLineAnchor, WrapIncomplete, NewTracker; haystacks with occurrences at generated offsets including the last 15 bytes and block boundaries, near misses sharing the 1-3 byte fingerprint; Find(h,s) for EVERY start offset s in 0..len(h) compared with min{i>=s: some literal is a prefix of h[i:]} (digit scanner: first digit; line-anchor wrapper: additionally at a line start); complete prefilters: FindMatch/LiteralLen span equals regexp's leftmost-first match of the alternation of the literals in order; haystack on read-only pages flush against an inaccessible page; run repeated with AVX2/SSSE3 masked. Non-trivial: the haystack contains an occurrence or a fingerprint-sharing near miss; distinct by hash of the case."
}
func (*c16) Decode(raw json.RawMessage) (any, error) {
	var c c16Case
	if err := json.Unmarshal(raw, &c); err != nil {
		return nil, err
	}
	return &c, nil
}

func drawLit(t core.RT, minLen, maxLen int, alpha string) []byte {
	n := rapid.IntRange(minLen, maxLen).Draw(t, "ll")
	b := make([]byte, n)
	for i := range b {
		b[i] = alpha[rapid.IntRange(0, len(alpha)-1).Draw(t, "lc")]
	}
	return b
}

func (*c16) Gen(t core.RT, env *core.Env) any {
	c := &c16Case{Prop: "C16"}
	c.Build = []string{"builder", "teddy", "fatteddy", "digit", "lineanchor", "incomplete", "tracker"}[pickIdx(t, "build", 6, 4, 3, 1, 2, 1, 2)]
	// alphabets: tiny (collisions), nibble-colliding (a q 1 A share low nibble 1), wide
	alpha := []string{"abc", "aq1AQ", "abcdefgh", "ab\xc3\xa9\xff\x00 "}[rapid.IntRange(0, 3).Draw(t, "alpha")]
	var count int
	switch pickIdx(t, "cnt", 2, 4, 3, 2, 2) {
	case 0:
		count = 1
	case 1:
		count = rapid.IntRange(2, 8).Draw(t, "n")
	case 2:
		count = rapid.IntRange(9, 32).Draw(t, "n")
	case 3:
		count = rapid.IntRange(33, 64).Draw(t, "n")
	default:
		count = rapid.IntRange(65, 90).Draw(t, "n")
	}
	if c.Build == "teddy" && count > 32 {
		count = rapid.IntRange(2, 32).Draw(t, "n2")
	}
	if c.Build == "fatteddy" && (count < 2 || count > 64) {
		count = rapid.IntRange(17, 64).Draw(t, "n3")
	}
	minLen := []int{1, 2, 3, 3, 3, 4}[rapid.IntRange(0, 5).Draw(t, "minlen")]
	maxLen := minLen + []int{0, 1, 3, 8, 30, 67}[pickIdx(t, "maxlen", 2, 3, 4, 2, 1, 1)]
	var lits [][]byte
	for len(lits) < count {
		var l []byte
		if len(lits) > 0 && rapid.IntRange(0, 4).Draw(t, "derive") == 0 {
			base := lits[rapid.IntRange(0, len(lits)-1).Draw(t, "bi")]
			switch rapid.IntRange(0, 2).Draw(t, "dk") {
			case 0: // extension (base is a prefix of l)
				l = append(append([]byte(nil), base...), drawLit(t, 1, 3, alpha)...)
			case 1: // shares a prefix, differs at the end
				l = append([]byte(nil), base...)
				l[len(l)-1] = alpha[rapid.IntRange(0, len(alpha)-1).Draw(t, "lc")]
			default: // duplicate
				l = append([]byte(nil), base...)
			}
		} else {
			l = drawLit(t, minLen, maxLen, alpha)
		}
		lits = append(lits, l)
	}
	for _, l := range lits {
		c.Lits = append(c.Lits, core.QuoteHay(l))
	}
	c.Complete = rapid.Bool().Draw(t, "complete")
	// haystack
	n := []int{0, 1, 5, 15, 16, 17, 31, 32, 33, 47, 63, 64, 65, 100, 130, 300}[rapid.IntRange(0, 15).Draw(t, "hl")] + rapid.IntRange(0, 3).Draw(t, "hj")
	h := make([]byte, n)
	noise := alpha + "  .."
	for i := range h {
		h[i] = noise[rapid.IntRange(0, len(noise)-1).Draw(t, "hb")]
	}
	if rapid.Bool().Draw(t, "quiet") {
		for i := range h {
			h[i] = '.'
		}
	}
	emb := rapid.IntRange(0, 3).Draw(t, "emb")
	for i := 0; i < emb && n > 0; i++ {
		l := lits[rapid.IntRange(0, len(lits)-1).Draw(t, "el")]
		if rapid.IntRange(0, 3).Draw(t, "near") == 0 && len(l) > 1 {
			l = l[:len(l)-1] // near miss sharing the fingerprint
		}
		if len(l) > n {
			continue
		}
		pos := rapid.IntRange(0, n-len(l)).Draw(t, "ep")
		if rapid.IntRange(0, 2).Draw(t, "tail") == 0 {
			pos = n - len(l) - rapid.IntRange(0, min(n-len(l), 15)).Draw(t, "tp")
		}
		copy(h[pos:], l)
	}
	if c.Build == "digit" {
		for i := 0; i < emb && n > 0; i++ {
			h[rapid.IntRange(0, n-1).Draw(t, "dp")] = byte('0' + rapid.IntRange(0, 9).Draw(t, "dd"))
		}
	}
	if c.Build == "lineanchor" {
		for i := 0; i < 2 && n > 0; i++ {
			h[rapid.IntRange(0, n-1).Draw(t, "nl")] = '\n'
		}
	}
	c.HayQ = core.QuoteHay(h)
	c.Slack = []int{0, 0, 0, 1, 7, 16}[rapid.IntRange(0, 5).Draw(t, "slack")]
	return c
}

func (p *c16) Run(ci any, env *core.Env) *core.Failure {
	c := ci.(*c16Case)
	env.Eval()
	env.Sample(c)
	var lits [][]byte
	for _, q := range c.Lits {
		lits = append(lits, (&core.DiffCase{HayQ: q}).Hay())
	}
	buf := (&core.DiffCase{HayQ: c.HayQ}).Hay()
	mk := func(api, kind, exp, got string) *core.Failure {
		d := &core.Disc{Prop: "C16", API: api, Group: "prefilter", Kind: kind, Layer: "prefilter", Site: c.Build, Expected: exp, Observed: got}
		return env.Known(d, c)
	}
	var pf prefilter.Prefilter
	var teddy *prefilter.Teddy
	var fat *prefilter.FatTeddy
	var tracker *prefilter.Tracker
	msg, pan := catchPanic(func() {
		seq := func() *literal.Seq {
			ls := make([]literal.Literal, len(lits))
			for i, l := range lits {
				ls[i] = literal.NewLiteral(l, c.Complete)
			}
			return literal.NewSeq(ls...)
		}
		switch c.Build {
		case "builder":
			pf = prefilter.NewBuilder(seq(), nil).Build()
		case "teddy":
			teddy = prefilter.NewTeddy(lits, nil)
			if teddy != nil {
				pf = teddy
			}
		case "fatteddy":
			fat = prefilter.NewFatTeddy(lits, nil)
			if fat != nil {
				pf = fat
			}
		case "digit":
			pf = prefilter.NewDigitPrefilter()
		case "lineanchor":
			if inner := prefilter.NewBuilder(seq(), nil).Build(); inner != nil {
				pf = prefilter.WrapLineAnchor(inner)
			}
		case "incomplete":
			if inner := prefilter.NewBuilder(seq(), nil).Build(); inner != nil {
				pf = prefilter.WrapIncomplete(inner)
			}
		case "tracker":
			if inner := prefilter.NewBuilder(seq(), nil).Build(); inner != nil {
				tracker = prefilter.NewTracker(inner)
				pf = tracker
			}
		}
	})
	if pan {
		return mk("build", "PANIC", "a prefilter or nil", msg)
	}
	if pf == nil {
		env.Count("declined", c.Build)
		return nil
	}
	env.Count("built", fmt.Sprintf("%s/%T", c.Build, pf))
	// reference
	isOcc := func(i int) bool {
		switch c.Build {
		case "digit":
			return buf[i] >= '0' && buf[i] <= '9'
		}
		for _, l := range lits {
			if bytes.HasPrefix(buf[i:], l) {
				if c.Build == "lineanchor" && !(i == 0 || buf[i-1] == '\n') {
					return false
				}
				return true
			}
		}
		return false
	}
	next := make([]int, len(buf)+2)
	next[len(buf)] = -1
	next[len(buf)+1] = -1
	anyOcc := false
	for i := len(buf) - 1; i >= 0; i-- {
		if isOcc(i) {
			next[i] = i
			anyOcc = true
		} else {
			next[i] = next[i+1]
		}
	}
	if anyOcc {
		b, _ := json.Marshal(c)
		env.NonTrivial(core.HashOf(string(b)))
	}
	region := p.pool.For(len(buf) + 64)
	h := region.AtEnd(buf, c.Slack)
	region.ReadOnly()
	defer region.Writable()

	complete := false
	var alt *regexp.Regexp
	_, _ = catchPanic(func() { complete = pf.IsComplete() })
	if complete && c.Build != "digit" {
		parts := make([]string, len(lits))
		for i, l := range lits {
			parts[i] = regexp.QuoteMeta(string(l))
		}
		// literals may be arbitrary bytes: regexp rejects ill-formed UTF-8 in patterns, so the
		// exact-span oracle applies to well-formed literal sets only
		alt, _ = regexp.Compile(strings.Join(parts, "|"))
	}
	for s := 0; s <= len(h); s++ {
		var got int
		msg, pan := guard.Call(func() { got = pf.Find(h, s) })
		env.Count("calls", "Find")
		if pan {
			return mk("Find", "FAULT", fmt.Sprint(next[s]), fmt.Sprintf("start=%d: %s", s, msg))
		}
		if tracker != nil && !tracker.IsActive() {
			env.Count("declined", "tracker_inactive")
			break
		}
		if got != next[s] {
			kind := "POS"
			if next[s] >= 0 && (got < 0 || got > next[s]) {
				kind = "SKIPPED_OCCURRENCE"
			}
			if f := mk("Find", kind, fmt.Sprintf("start=%d -> %d", s, next[s]), fmt.Sprintf("start=%d -> %d", s, got)); f != nil {
				return f
			}
		}
		if complete && c.Build != "digit" && s < len(h) {
			// span of a complete prefilter == leftmost-first match of the alternation from s
			// leftmost occurrence, and at that position the first literal (in the given order)
			// that is a prefix: this is regexp's leftmost-first match of lit1|lit2|...
			var ws, we = -1, -1
			if next[s] >= 0 {
				ws = next[s]
				for _, l := range lits {
					if bytes.HasPrefix(buf[ws:], l) {
						we = ws + len(l)
						break
					}
				}
				if alt != nil && c.Build != "lineanchor" {
					// cross-check the scalar definition against regexp itself
					if m := alt.FindIndex(buf[s:]); m == nil || s+m[0] != ws || s+m[1] != we {
						panic(fmt.Sprintf("harness: scalar leftmost-first definition disagrees with regexp: %v vs [%d %d]", m, ws, we))
					}
				}
			}
			var gs, ge int = -2, -2
			msg, pan := guard.Call(func() {
				switch {
				case teddy != nil:
					gs, ge = teddy.FindMatch(h, s)
				case fat != nil:
					gs, ge = fat.FindMatch(h, s)
				default:
					if t, ok := pf.(interface {
						FindMatch([]byte, int) (int, int)
					}); ok {
						gs, ge = t.FindMatch(h, s)
					} else if ll := pf.LiteralLen(); ll > 0 {
						gs = pf.Find(h, s)
						ge = -1
						if gs >= 0 {
							ge = gs + ll
						}
					}
				}
			})
			if pan {
				return mk("FindMatch", "FAULT", fmt.Sprintf("[%d %d]", ws, we), msg)
			}
			if gs != -2 {
				env.Count("calls", "FindMatch/LiteralLen")
				if gs != ws || ge != we {
					if f := mk("FindMatch", "SPAN", fmt.Sprintf("start=%d -> [%d %d]", s, ws, we), fmt.Sprintf("start=%d -> [%d %d]", s, gs, ge)); f != nil {
						return f
					}
				}
			}
		}
	}
	if !bytes.Equal(h, buf) {
		return mk("Find", "MODIFIED", "haystack unchanged", "haystack modified")
	}
	return nil
}
