package props

import (
	"encoding/json"
	"fmt"
	"os"
	"regexp"
	"regexp/syntax"
	"runtime"
	"sort"
	"strings"
	"sync"

	"pgregory.net/rapid"

	"github.com/coregx/coregex"

	"verif/harness/internal/core"
	"verif/harness/internal/feat"
	"verif/harness/internal/gen"
)

// C06: a compiled Regex is safe for concurrent use.

type c06Call struct {
	API string `json:"api"`
	Hay int    `json:"hay"`
}

type c06Case struct {
	Prop    string    `json:"property"`
	Pattern string    `json:"pattern"`
	Longest bool      `json:"longest,omitempty"`
	Hays    []string  `json:"haystacks"`
	Calls   []c06Call `json:"calls"`
	G       int       `json:"goroutines"`
	R       int       `json:"rounds"`
	GC      bool      `json:"gc_interleaved,omitempty"`
	Rot     int       `json:"rotation"`
	Source  string    `json:"source,omitempty"`
}

type c06 struct {
	logOff int64
}

func NewC06() core.Property { return &c06{} }
func (*c06) ID() string     { return "C06" }
func (*c06) Assumptions() []string {
	return []string{"data races are judged by the Go race detector (-race build, GORACE=halt_on_error=0 log_path=...): it reasons about the happens-before order of the accesses that were executed; a code path no goroutine pair executed is not judged"}
}
func (*c06) Rule() string {
	return "strategy-stratified pattern + 4-16 call descriptors (API x haystack, same and different haystacks, including long ones that switch engines) executed by G in {2,4,8,16} goroutines released from one barrier, each running a rotation of the call list for R rounds on one shared *Regex (optionally with runtime.GC() interleaved to churn the pool). Oracles: (a) every concurrent result equals the result of the same call executed alone on the same value before the goroutines start; (b) the race detector's log: every new report is reduced to the pair of coregex frames of the two conflicting accesses (the call-site signature); a call site not listed in known_findings.json is a violation. Non-trivial: >= 2 goroutines executed the same dispatcher on the shared value within a round; distinct by hash of the case."
}
func (*c06) Decode(raw json.RawMessage) (any, error) {
	var c c06Case
	if err := json.Unmarshal(raw, &c); err != nil {
		return nil, err
	}
	return &c, nil
}

var c06APIs = []string{"Match", "MatchString", "FindIndex", "Find", "FindSubmatchIndex", "FindAllIndex", "FindAllSubmatchIndex", "Count", "AllIndex", "AppendAllIndex", "ReplaceAll", "ReplaceAllFunc", "Split", "FindStringSubmatch", "FindReaderIndex"}

func (*c06) Gen(t core.RT, env *core.Env) any {
	c := &c06Case{Prop: "C06"}
	pi := gen.Pattern(t, gen.AllOpts(), 1, 3) // mostly templates: every strategy
	c.Pattern, c.Source = pi.Pattern, pi.Source
	if rapid.IntRange(0, 7).Draw(t, "blow") == 0 {
		c.Pattern = fmt.Sprintf("(?:a|b)*a(?:a|b){%d}", rapid.IntRange(6, 13).Draw(t, "k"))
		c.Source = "blowup"
	}
	c.Longest = rapid.IntRange(0, 7).Draw(t, "longest") == 0
	re, _ := syntax.Parse(c.Pattern, syntax.Perl)
	nh := rapid.IntRange(1, 4).Draw(t, "nh")
	for i := 0; i < nh; i++ {
		ho := gen.HOpts{NonASCII: true, Invalid: rapid.IntRange(0, 4).Draw(t, "inv") == 0, Long: true, MaxLen: 600}
		h := gen.Haystack(t, re, ho)
		if i == 0 && rapid.IntRange(0, 3).Draw(t, "long") == 0 && len(h) > 0 {
			// long haystack: engine switches (backtracker cap, DFA cache pressure)
			rep := rapid.IntRange(2, 40).Draw(t, "rep")
			big := make([]byte, 0, len(h)*rep)
			for j := 0; j < rep && len(big) < 8000; j++ {
				big = append(big, h...)
			}
			h = big
		}
		c.Hays = append(c.Hays, core.QuoteHay(h))
	}
	nc := rapid.IntRange(4, 16).Draw(t, "nc")
	for i := 0; i < nc; i++ {
		c.Calls = append(c.Calls, c06Call{API: c06APIs[rapid.IntRange(0, len(c06APIs)-1).Draw(t, "api")], Hay: rapid.IntRange(0, nh-1).Draw(t, "h")})
	}
	c.G = []int{2, 4, 8, 16}[rapid.IntRange(0, 3).Draw(t, "g")]
	c.R = rapid.IntRange(1, 3).Draw(t, "r")
	// bound the work of one case (the race detector slows the simulators down
	// 10-20x and the machine may be busy): at most ~1.5 MB of searched input
	maxHay := 0
	for _, q := range c.Hays {
		if n := len(q); n > maxHay {
			maxHay = n
		}
	}
	for c.G*c.R*len(c.Calls)*maxHay > 1500000 && (c.R > 1 || c.G > 2) {
		if c.R > 1 {
			c.R--
		} else {
			c.G /= 2
		}
	}
	c.GC = rapid.IntRange(0, 5).Draw(t, "gc") == 0
	c.Rot = rapid.IntRange(0, 15).Draw(t, "rot")
	return c
}

func c06Do(r *coregex.Regex, api string, h []byte) string {
	switch api {
	case "Match":
		return core.Canon(r.Match(h))
	case "MatchString":
		return core.Canon(r.MatchString(string(h)))
	case "FindIndex":
		return core.Canon(r.FindIndex(h))
	case "Find":
		return core.Canon(r.Find(h))
	case "FindSubmatchIndex":
		return core.Canon(r.FindSubmatchIndex(h))
	case "FindAllIndex":
		return core.Canon(r.FindAllIndex(h, -1))
	case "FindAllSubmatchIndex":
		return core.Canon(r.FindAllSubmatchIndex(h, -1))
	case "Count":
		return core.Canon(r.Count(h, -1))
	case "AllIndex":
		var out [][2]int
		for m := range r.AllIndex(h) {
			out = append(out, m)
		}
		return core.Canon(out)
	case "AppendAllIndex":
		return core.Canon(r.AppendAllIndex(nil, h, -1))
	case "ReplaceAll":
		return core.Canon(string(r.ReplaceAll(h, []byte("<$0>"))))
	case "ReplaceAllFunc":
		return core.Canon(string(r.ReplaceAllFunc(h, func(m []byte) []byte { return []byte("x") })))
	case "Split":
		return core.Canon(r.Split(string(h), -1))
	case "FindStringSubmatch":
		return core.Canon(r.FindStringSubmatch(string(h)))
	case "FindReaderIndex":
		return core.Canon(r.FindReaderIndex(strings.NewReader(string(h))))
	}
	return ""
}

var raceFrameRE = regexp.MustCompile(`(?m)^  (github\.com/coregx/[^\s(]+(?:\([^)]*\))?[^\s(]*)\(`)

// raceSites parses new race-detector reports and returns one call-site signature per report:
// the innermost coregex frame of each of the two conflicting accesses.
func raceSites(text string) []string {
	var sites []string
	for _, rep := range strings.Split(text, "WARNING: DATA RACE") {
		if !strings.Contains(rep, "by goroutine") && !strings.Contains(rep, "by main goroutine") {
			continue
		}
		// the report has two access sections followed by goroutine creation sections
		parts := strings.Split(rep, "\n\n")
		var acc []string
		for _, p := range parts {
			tp := strings.TrimSpace(p)
			if strings.HasPrefix(tp, "Read at") || strings.HasPrefix(tp, "Write at") || strings.HasPrefix(tp, "Previous read at") || strings.HasPrefix(tp, "Previous write at") ||
				strings.HasPrefix(tp, "Atomic") || strings.HasPrefix(tp, "Previous atomic") {
				fn := "(non-coregex)"
				if m := raceFrameRE.FindStringSubmatch(p); m != nil {
					fn = m[1]
					fn = fn[strings.LastIndex(fn, "/")+1:]
				}
				acc = append(acc, fn)
			}
		}
		if len(acc) == 0 {
			continue
		}
		sort.Strings(acc)
		sites = append(sites, strings.Join(acc, " <-> "))
	}
	return sites
}

func raceLogPath() string {
	// GORACE="... log_path=/x/y" -> the runtime writes /x/y.<pid>
	for _, kv := range strings.Fields(os.Getenv("GORACE")) {
		if strings.HasPrefix(kv, "log_path=") {
			return fmt.Sprintf("%s.%d", strings.TrimPrefix(kv, "log_path="), os.Getpid())
		}
	}
	return ""
}

func (p *c06) newRaceText() string {
	path := raceLogPath()
	if path == "" {
		return ""
	}
	b, err := os.ReadFile(path)
	if err != nil || int64(len(b)) <= p.logOff {
		return ""
	}
	s := string(b[p.logOff:])
	p.logOff = int64(len(b))
	return s
}

func (p *c06) Run(ci any, env *core.Env) *core.Failure {
	c := ci.(*c06Case)
	env.Eval()
	env.Sample(summarizeC06(c))
	re, err := syntax.Parse(c.Pattern, syntax.Perl)
	if err != nil {
		return nil
	}
	feats := feat.Pattern(re).List()
	var r *coregex.Regex
	if msg, pan := catchPanic(func() { r, err = coregex.Compile(c.Pattern) }); pan {
		return env.Known(&core.Disc{Prop: "C06", Kind: "COMPILE_PANIC", Detail: msg}, c)
	}
	if err != nil || r == nil {
		return nil
	}
	if c.Longest {
		r.Longest()
	}
	strat := r.VerifEngine().Strategy().String()
	env.Count("strategy", strat)
	env.Count("goroutines", fmt.Sprint(c.G))
	mode := "first"
	if c.Longest {
		mode = "longest"
	}
	mk := func(api, kind, site, exp, got string) *core.Failure {
		d := &core.Disc{Prop: "C06", API: api, Group: "concurrency", Mode: mode, Kind: kind, Layer: "meta", Strategy: strat, Feats: feats, Site: site, Expected: exp, Observed: got}
		return env.Known(d, c)
	}
	hays := make([][]byte, len(c.Hays))
	for i, q := range c.Hays {
		hays[i] = (&core.DiffCase{HayQ: q}).Hay()
	}
	_ = p.newRaceText() // discard anything logged outside a case
	// sequential results on the same value, before the goroutines start
	want := make([]string, len(c.Calls))
	if msg, pan := catchPanic(func() {
		for i, cl := range c.Calls {
			want[i] = c06Do(r, cl.API, hays[cl.Hay%len(hays)])
		}
	}); pan {
		return mk("sequential", "PANIC", "", "", msg)
	}
	var mu sync.Mutex
	var diffs []string
	var panics []string
	start := make(chan struct{})
	var wg sync.WaitGroup
	for g := 0; g < c.G; g++ {
		wg.Add(1)
		go func(g int) {
			defer wg.Done()
			defer func() {
				if rec := recover(); rec != nil {
					mu.Lock()
					panics = append(panics, fmt.Sprint(rec))
					mu.Unlock()
				}
			}()
			<-start
			for round := 0; round < c.R; round++ {
				for k := range c.Calls {
					i := (k + g*c.Rot) % len(c.Calls)
					cl := c.Calls[i]
					got := c06Do(r, cl.API, hays[cl.Hay%len(hays)])
					if got != want[i] {
						mu.Lock()
						if len(diffs) < 4 {
							diffs = append(diffs, fmt.Sprintf("%s on haystack %d: alone=%s concurrent=%s", cl.API, cl.Hay, trunc(want[i], 120), trunc(got, 120)))
						}
						mu.Unlock()
					}
					if c.GC && g == 0 && k%5 == 0 {
						runtime.GC()
					}
				}
			}
		}(g)
	}
	close(start)
	wg.Wait()
	if c.G >= 2 {
		b, _ := json.Marshal(c)
		env.NonTrivial(core.HashOf(string(b)))
	}
	if len(panics) > 0 {
		if f := mk("concurrent", "PANIC", "", "", panics[0]); f != nil {
			return f
		}
	}
	if len(diffs) > 0 {
		if f := mk("concurrent", "RESULT_DIFFERS", "", "result of the call executed alone", strings.Join(diffs, "; ")); f != nil {
			return f
		}
	}
	if txt := p.newRaceText(); txt != "" {
		for _, site := range raceSites(txt) {
			env.Count("race_reports", "seen")
			if f := mk("concurrent", "DATA_RACE", site, "no data race", trunc(txt, 3000)); f != nil {
				return f
			}
		}
	}
	return nil
}

func trunc(s string, n int) string {
	if len(s) > n {
		return s[:n] + "..."
	}
	return s
}

func summarizeC06(c *c06Case) any {
	cp := *c
	cp.Hays = nil
	for _, h := range c.Hays {
		if len(h) > 80 {
			h = h[:80] + fmt.Sprintf("...(%d quoted bytes)", len(h))
		}
		cp.Hays = append(cp.Hays, h)
	}
	return &cp
}
