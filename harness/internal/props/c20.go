package props

import (
	"encoding/json"
	"fmt"
	"regexp/syntax"
	"runtime"
	"runtime/debug"
	"sort"
	"strings"
	"testing"

	"pgregory.net/rapid"

	"github.com/coregx/coregex"
	"github.com/coregx/coregex/dfa/lazy"
	"github.com/coregx/coregex/nfa"

	"verif/harness/internal/core"
	"verif/harness/internal/feat"
	"verif/harness/internal/gen"
)

// C20: bounded memory per Regex; zero-allocation steady-state calls.

type c20Case struct {
	Prop     string   `json:"property"`
	Pattern  string   `json:"pattern"`
	Hays     []string `json:"haystacks"` // Go-quoted
	CacheCap int      `json:"cache_capacity_bytes"`
	Clears   int      `json:"max_cache_clears"`
	Order    []int    `json:"order"` // history: indices into Hays
	Source   string   `json:"source,omitempty"`
}

type c20 struct{}

func NewC20() core.Property { return &c20{} }
func (*c20) ID() string     { return "C20" }
func (*c20) Rule() string {
	return "pattern (grammar/templates, plus blow-up shapes (?:a|b)*a(?:a|b){k} on long a/b noise) x 2-5 haystacks x a generated call history. (a) lazy.DFA driven with its own DFACache under generated capacities: after every search MemoryUsage() <= capacity + one state (stride*4+56+4*nfaStates+64); (b) BoundedBacktracker: len(Visited) <= MaxVisitedSize() after every search; (c) engine level via the verif hook: cached DFA caches and visited table within their bounds along the history; (d) steady state: heap in use after GC after 3 and after 9 repetitions of the same history differs by <= 512 KiB; (e) testing.AllocsPerRun == 0 after warm-up for Match/MatchString, Engine.IsMatch, Engine.FindIndices, Count, AllIndex, AppendAllIndex into a sufficient buffer (GC off, single goroutine); an allocating call is re-run with MemProfileRate=1 and identified by its innermost coregex allocation frame. Non-trivial: the history provoked cache churn (>= 1 clear observed) or a haystack exceeds 1 KiB; distinct by hash(pattern, haystacks, capacity)."
}
func (*c20) Decode(raw json.RawMessage) (any, error) {
	var c c20Case
	if err := json.Unmarshal(raw, &c); err != nil {
		return nil, err
	}
	return &c, nil
}

func (*c20) Gen(t core.RT, env *core.Env) any {
	c := &c20Case{Prop: "C20"}
	blow := rapid.IntRange(0, 3).Draw(t, "blow") == 0
	if blow {
		c.Pattern = fmt.Sprintf("(?:a|b)*a(?:a|b){%d}", rapid.IntRange(6, 14).Draw(t, "k"))
		c.Source = "blowup"
	} else {
		pi := gen.Pattern(t, gen.AllOpts(), 1, 1)
		c.Pattern, c.Source = pi.Pattern, pi.Source
	}
	re, _ := syntax.Parse(c.Pattern, syntax.Perl)
	nh := rapid.IntRange(2, 5).Draw(t, "nh")
	for i := 0; i < nh; i++ {
		var h []byte
		if blow && i == 0 {
			n := rapid.IntRange(1000, 20000).Draw(t, "bl")
			h = make([]byte, n)
			x := rapid.Uint64().Draw(t, "bs") | 1
			for j := range h {
				x ^= x << 13
				x ^= x >> 7
				x ^= x << 17
				h[j] = "ab"[x&1]
			}
		} else {
			h = gen.Haystack(t, re, gen.HOpts{NonASCII: true, Invalid: true, Long: true, MaxLen: 4096})
		}
		c.Hays = append(c.Hays, core.QuoteHay(h))
	}
	c.CacheCap = []int{2 * 1024 * 1024, 1, 200, 1024, 8192, 65536}[pickIdx(t, "cap", 3, 1, 2, 2, 2, 2)]
	c.Clears = rapid.IntRange(0, 5).Draw(t, "clears")
	no := rapid.IntRange(3, 12).Draw(t, "no")
	for i := 0; i < no; i++ {
		c.Order = append(c.Order, rapid.IntRange(0, nh-1).Draw(t, "o"))
	}
	return c
}

func innermostCoregexFrame(stk []uintptr) string {
	frames := runtime.CallersFrames(stk)
	for {
		fr, more := frames.Next()
		if strings.Contains(fr.Function, "github.com/coregx/coregex") {
			fn := fr.Function[strings.LastIndex(fr.Function, "/")+1:]
			return fn
		}
		if !more {
			break
		}
	}
	return "(no coregex frame)"
}

// allocSites runs f with full memory profiling and returns the innermost coregex frames
// of the allocations it performed.
func allocSites(f func()) string {
	old := runtime.MemProfileRate
	runtime.MemProfileRate = 1
	defer func() { runtime.MemProfileRate = old }()
	snap := func() map[string]int64 {
		runtime.GC()
		runtime.GC()
		n, _ := runtime.MemProfile(nil, true)
		recs := make([]runtime.MemProfileRecord, n+200)
		n, _ = runtime.MemProfile(recs, true)
		out := map[string]int64{}
		for _, r := range recs[:n] {
			out[innermostCoregexFrame(r.Stack())] += r.AllocObjects
		}
		return out
	}
	before := snap()
	for i := 0; i < 20; i++ {
		f()
	}
	after := snap()
	var sites []string
	for k, v := range after {
		if v-before[k] >= 10 && k != "(no coregex frame)" {
			sites = append(sites, k)
		}
	}
	sort.Strings(sites)
	if len(sites) == 0 {
		return "(unattributed)"
	}
	return strings.Join(sites, "+")
}

func (p *c20) Run(ci any, env *core.Env) *core.Failure {
	c := ci.(*c20Case)
	env.Eval()
	env.Sample(summarizeC20(c))
	re, err := syntax.Parse(c.Pattern, syntax.Perl)
	if err != nil {
		return nil
	}
	feats := feat.Pattern(re).List()
	hays := make([][]byte, len(c.Hays))
	big := false
	for i, q := range c.Hays {
		hays[i] = (&core.DiffCase{HayQ: q}).Hay()
		if len(hays[i]) > 1024 {
			big = true
		}
	}
	strat := ""
	mk := func(api, kind, site, exp, got string) *core.Failure {
		d := &core.Disc{Prop: "C20", API: api, Group: "memory", Kind: kind, Layer: "meta", Strategy: strat, Feats: feats, Site: site, Expected: exp, Observed: got}
		return env.Known(d, c)
	}
	churn := false

	// ---- (a) lazy DFA cache bound, (b) backtracker visited bound
	var fail *core.Failure
	msg, pan := catchPanic(func() {
		n, err := nfa.NewDefaultCompiler().CompileRegexp(re)
		if err != nil {
			return
		}
		lcfg := lazy.DefaultConfig()
		lcfg.CacheCapacityBytes = c.CacheCap
		lcfg.MaxCacheClears = c.Clears
		lcfg.UsePrefilter = false
		if d, err := lazy.CompileWithConfig(n, lcfg); err == nil {
			cache := d.NewCache()
			// one state = its transition row + list/map entries + NFA state list + accel bytes; the
			// flat table additionally keeps one reserved row (state offsets start at stride)
			oneState := 2*d.AlphabetLen()*4 + 56 + 4*n.States() + 64
			for _, oi := range c.Order {
				h := hays[oi%len(hays)]
				d.Find(cache, h)
				d.IsMatch(cache, h)
				d.SearchAt(cache, h, len(h)/2)
				env.Count("checks", "dfa_cache_bound")
				if mu := cache.MemoryUsage(); mu > c.CacheCap+oneState {
					fail = mk("lazy.DFACache.MemoryUsage", "CACHE_OVER_CAPACITY", "cap="+capClass(&c14Case{CacheCap: c.CacheCap}), fmt.Sprintf("<= %d + %d", c.CacheCap, oneState), fmt.Sprint(mu))
					if fail != nil {
						return
					}
				}
				if cache.ClearCount() > 0 {
					churn = true
				}
			}
		}
		for bi, b := range []*nfa.BoundedBacktracker{nfa.NewBoundedBacktracker(n), nfa.NewBoundedBacktrackerSmall(n)} {
			st := nfa.NewBacktrackerState()
			for _, oi := range c.Order {
				h := hays[oi%len(hays)]
				b.SearchAtWithState(h, 0, st) // including inputs it must decline
				b.IsMatchWithState(h, st)
				env.Count("checks", "visited_bound")
				if len(st.Visited) > b.MaxVisitedSize() {
					fail = mk("BoundedBacktracker.Visited", "VISITED_OVER_CAP", fmt.Sprintf("variant%d", bi), fmt.Sprintf("<= %d", b.MaxVisitedSize()), fmt.Sprint(len(st.Visited)))
					if fail != nil {
						return
					}
				}
			}
		}
	})
	if pan {
		if f := mk("engines", "PANIC", "", "", msg); f != nil {
			return f
		}
	}
	if fail != nil {
		return fail
	}

	// ---- (c) engine-level bounds along the history, (d) steady-state heap, (e) zero-alloc calls
	var r *coregex.Regex
	if msg, pan := catchPanic(func() { r, err = coregex.Compile(c.Pattern) }); pan {
		return mk("Compile", "PANIC", "", "", msg)
	}
	if err != nil || r == nil {
		return nil
	}
	eng := r.VerifEngine()
	strat = eng.Strategy().String()
	env.Count("strategy", strat)
	const dfaCap = 2 * 1024 * 1024
	history := func() {
		for _, oi := range c.Order {
			h := hays[oi%len(hays)]
			r.Match(h)
			r.FindIndex(h)
			r.Count(h, -1)
			r.FindSubmatchIndex(h)
		}
	}
	msg, pan = catchPanic(func() {
		for rep := 0; rep < 3 && fail == nil; rep++ {
			history()
			s := eng.VerifSnapshot()
			env.Count("checks", "engine_snapshot")
			slack := 1 << 16 // one state of a large automaton
			for name, b := range map[string]int{"dfaCache": s.DFACacheBytes, "revDFACache": s.RevDFACacheBytes, "stratFwdCache": s.StratFwdCacheBytes, "stratRevCache": s.StratRevCacheBytes} {
				if b > dfaCap+slack {
					fail = mk("Engine."+name, "CACHE_OVER_CAPACITY", "engine", fmt.Sprintf("<= %d", dfaCap+slack), fmt.Sprint(b))
					if fail != nil {
						return
					}
				}
			}
			if s.HasBacktracker && s.MaxVisitedSize > 0 && s.VisitedLen > s.MaxVisitedSize {
				fail = mk("Engine.backtracker.Visited", "VISITED_OVER_CAP", "engine", fmt.Sprintf("<= %d", s.MaxVisitedSize), fmt.Sprint(s.VisitedLen))
				if fail != nil {
					return
				}
			}
			if s.DFACacheClears > 0 {
				churn = true
			}
		}
		if fail != nil {
			return
		}
		// (d) steady state
		var m1, m2 runtime.MemStats
		runtime.GC()
		runtime.ReadMemStats(&m1)
		for rep := 0; rep < 6; rep++ {
			history()
		}
		runtime.GC()
		runtime.ReadMemStats(&m2)
		env.Count("checks", "steady_state_heap")
		if grow := int64(m2.HeapAlloc) - int64(m1.HeapAlloc); grow > 512*1024 {
			fail = mk("Regex", "HEAP_GROWTH", "steady-state", "<= 524288 bytes between 3 and 9 repetitions of the history", fmt.Sprint(grow))
			if fail != nil {
				return
			}
		}
		// (e) zero-allocation calls
		h := hays[c.Order[0]%len(hays)]
		hs := string(h)
		buf := make([][2]int, 0, len(h)+2)
		calls := []struct {
			name string
			f    func()
		}{
			{"Regex.Match", func() { r.Match(h) }},
			{"Regex.MatchString", func() { r.MatchString(hs) }},
			{"Engine.IsMatch", func() { eng.IsMatch(h) }},
			{"Engine.FindIndices", func() { eng.FindIndices(h) }},
			{"Regex.Count", func() { r.Count(h, -1) }},
			{"Regex.AllIndex", func() {
				for range r.AllIndex(h) {
				}
			}},
			{"Regex.AppendAllIndex", func() { buf = r.AppendAllIndex(buf[:0], h, -1) }},
		}
		old := debug.SetGCPercent(-1)
		defer debug.SetGCPercent(old)
		for _, cl := range calls {
			cl.f() // warm-up
			cl.f()
			allocs := testing.AllocsPerRun(5, cl.f)
			env.Count("checks", "allocs:"+cl.name)
			if allocs > 0 {
				site := allocSites(cl.f)
				fail = mk(cl.name, "ALLOCATES", site, "0 allocs/op after warm-up", fmt.Sprintf("%.1f allocs/op", allocs))
				if fail != nil {
					return
				}
			}
		}
	})
	if pan && fail == nil {
		if f := mk("history", "PANIC", "", "", msg); f != nil {
			return f
		}
	}
	if churn || big {
		env.NonTrivial(core.HashOf(c.Pattern, fmt.Sprint(c.Hays), fmt.Sprint(c.CacheCap)))
		if churn {
			env.Count("provoked", "cache_clears")
		}
	}
	return fail
}

func summarizeC20(c *c20Case) any {
	cp := *c
	cp.Hays = nil
	for _, h := range c.Hays {
		if len(h) > 80 {
			h = h[:80] + fmt.Sprintf("...(%d quoted bytes)", len(h))
		}
		cp.Hays = append(cp.Hays, h)
	}
	return &cp
}
