package props

import (
	"encoding/json"
	"fmt"
	"regexp"
	"regexp/syntax"
	"strings"

	"pgregory.net/rapid"

	"github.com/coregx/coregex"
	"github.com/coregx/coregex/nfa"

	"verif/harness/internal/core"
	"verif/harness/internal/feat"
	"verif/harness/internal/gen"
	"verif/harness/internal/work"
)

// C05: every single search does work linear in the haystack; compilation is polynomial.

type c05Case struct {
	Prop    string `json:"property"`
	Kind    string `json:"kind"` // search | compile
	Pattern string `json:"pattern"`
	API     string `json:"api,omitempty"`    // Match | FindIndex | FindSubmatchIndex
	Prefix  string `json:"prefix,omitempty"` // Go-quoted
	Unit    string `json:"unit,omitempty"`
	Suffix  string `json:"suffix,omitempty"`
	N       int    `json:"n"`
	Source  string `json:"source,omitempty"`
}

type c05 struct{}

func NewC05() core.Property { return &c05{} }
func (*c05) ID() string     { return "C05" }
func (*c05) Assumptions() []string {
	return []string{"work = sum of Go coverage counters (executed basic blocks) of all coregex packages in a -cover -covermode=atomic build, around one warmed call on one goroutine; the constant K of the absolute bound is fixed by calibration (DESIGN.md section 7, C05)"}
}
func (*c05) Rule() string {
	return "pattern (all strategies; extra weight on candidate-loop shapes, overlapping adjacent classes, captures in repetitions, nested quantifiers, many alternations) x pumped family h_n = prefix + unit^n + suffix whose unit is near-miss material of the pattern, evaluated at n = N, 2N, 4N, 8N, 16N for Match, FindIndex and FindSubmatchIndex; work = executed basic blocks (coverage counters). Oracle: (a) absolute bound work <= K*(states+1)*(len+1)+C; (b) growth: at least 3 of the 4 doublings must not exceed factor 2.6 (linear = 2, quadratic = 4; a single engine switch affects one doubling only). Compile: work(Compile(unit^8k)) <= 600*work(Compile(unit^k)) + C (cubic allowance). No wall-clock value is an oracle. Non-trivial: work(8N) >= 4*work(N) (the haystack really was scanned); distinct by hash(pattern, api, unit)."
}
func (*c05) Decode(raw json.RawMessage) (any, error) {
	var c c05Case
	if err := json.Unmarshal(raw, &c); err != nil {
		return nil, err
	}
	return &c, nil
}

var redosShapes = []string{`([a-z])+[0-9]`, `[a-z]+[a-z]+[0-9]`, `(a|aa)*c`, `(a*)*b`, `(?:a+)+b`, `(\w+\s?)*$`, `\w+@\w+\.com`, `.*a.*b.*c`, `(x+x+)+y`, `[a-c]{2,}[a-c]{2,}d`, `a[\wa](?m:^)a`, `(?:.*,){5}x`, `\b\w+\b\s*=`, `(a|b|ab)*c`, `.*\.(txt|log|md)`, `foo.*bar`, `(?i)(eval|system|exec)\(`, `^(\d+\.)+$`, `(\d+)+x`, `[^,]*,[^,]*,[^,]*z`}

func (*c05) Gen(t core.RT, env *core.Env) any {
	c := &c05Case{Prop: "C05"}
	if rapid.IntRange(0, 9).Draw(t, "kind") == 0 {
		c.Kind = "compile"
		units := []string{"a", "(a|b)", "a*", "[a-z]+", "(?:ab)?", "(a)", "a{2}", `\pL`, "(?i:k)", ".", `\b`, "a|"}
		c.Unit = units[rapid.IntRange(0, len(units)-1).Draw(t, "cu")]
		c.N = rapid.IntRange(2, 12).Draw(t, "cn")
		return c
	}
	c.Kind = "search"
	if rapid.IntRange(0, 3).Draw(t, "shape") == 0 {
		c.Pattern = redosShapes[rapid.IntRange(0, len(redosShapes)-1).Draw(t, "rs")]
		c.Source = "redos-shape"
	} else {
		pi := gen.Pattern(t, gen.AllOpts(), 1, 2)
		c.Pattern, c.Source = pi.Pattern, pi.Source
	}
	c.API = []string{"Match", "FindIndex", "FindSubmatchIndex"}[rapid.IntRange(0, 2).Draw(t, "api")]
	re, err := syntax.Parse(c.Pattern, syntax.Perl)
	var unit, pre, suf []byte
	if err == nil {
		ho := gen.HOpts{NonASCII: true, Invalid: rapid.IntRange(0, 5).Draw(t, "inv") == 0}
		std, _ := regexp.Compile(c.Pattern)
		// up to 4 candidate units; prefer one whose pumped form regexp does NOT match, so that the
		// search cannot stop early and really scans the haystack
		for try := 0; try < 4; try++ {
			b := 24
			var u []byte
			switch rapid.IntRange(0, 3).Draw(t, "uk") {
			case 0:
				u = gen.Sample(t, re, ho, &b)
			case 1, 2:
				// near miss: a sample with its tail cut
				s := gen.Sample(t, re, ho, &b)
				if len(s) > 1 {
					s = s[:rapid.IntRange(1, len(s)-1).Draw(t, "cut")]
				}
				u = s
			default:
				u = gen.Haystack(t, re, gen.HOpts{NonASCII: true, MaxLen: 6})
			}
			if len(u) > 16 {
				u = u[:16]
			}
			if len(u) == 0 {
				continue
			}
			if unit == nil {
				unit = u
			}
			if std != nil && !std.Match([]byte(strings.Repeat(string(u), 8))) {
				unit = u
				break
			}
		}
		b := 24
		if rapid.Bool().Draw(t, "pre") {
			pre = gen.Sample(t, re, ho, &b)
		}
		if rapid.Bool().Draw(t, "suf") {
			suf = gen.Haystack(t, re, gen.HOpts{NonASCII: true, MaxLen: 8})
		}
	}
	if len(unit) == 0 {
		unit = []byte{"ab x1"[rapid.IntRange(0, 4).Draw(t, "ub")]}
	}
	if len(unit) > 16 {
		unit = unit[:16]
	}
	c.Unit, c.Prefix, c.Suffix = core.QuoteHay(unit), core.QuoteHay(pre), core.QuoteHay(suf)
	maxTotal := 4096
	if env.Thorough {
		maxTotal = 32768
	}
	maxN := maxTotal / 8 / len(unit)
	if maxN < 4 {
		maxN = 4
	}
	c.N = rapid.IntRange(4, maxN).Draw(t, "n")
	return c
}

func measure(f func()) (uint64, error) {
	f() // warm: pooled state, lazily built tables
	f()
	if err := work.Reset(); err != nil {
		return 0, err
	}
	f()
	return work.Read()
}

func (p *c05) Run(ci any, env *core.Env) *core.Failure {
	c := ci.(*c05Case)
	env.Eval()
	env.Sample(c)
	if !work.Available() {
		return &core.Failure{Disc: core.Disc{Prop: "C05", Kind: "HARNESS", Detail: "worker not built with -cover"}, Case: c}
	}
	mk := func(kind, strat string, feats []string, exp, got string) *core.Failure {
		d := &core.Disc{Prop: "C05", API: c.API, Group: "work", Kind: kind, Layer: "meta", Strategy: strat, Feats: feats, Expected: exp, Observed: got}
		return env.Known(d, c)
	}
	if c.Kind == "compile" {
		var w [2]uint64
		for i, k := range []int{c.N, 8 * c.N} {
			pat := strings.Repeat(c.Unit, k)
			if _, err := regexp.Compile(pat); err != nil {
				return nil
			}
			var err error
			msg, pan := catchPanic(func() {
				w[i], err = measure(func() { _, _ = coregex.Compile(pat) })
			})
			if pan {
				return mk("PANIC", "", nil, "", msg)
			}
			if err != nil {
				return &core.Failure{Disc: core.Disc{Prop: "C05", Kind: "HARNESS", Detail: err.Error()}, Case: c}
			}
		}
		env.Count("kind", "compile")
		if w[1] >= 4*w[0] {
			env.NonTrivial(core.HashOf("compile", c.Unit, fmt.Sprint(c.N)))
		}
		if w[1] > 600*w[0]+5_000_000 {
			return mk("COMPILE_SUPERCUBIC", "", nil, fmt.Sprintf("work(8k) <= 600*work(k)+5e6, work(k)=%d", w[0]), fmt.Sprintf("work(8k)=%d", w[1]))
		}
		return nil
	}

	re, err := syntax.Parse(c.Pattern, syntax.Perl)
	if err != nil {
		return nil
	}
	if _, err := regexp.Compile(c.Pattern); err != nil {
		return nil
	}
	feats := feat.Pattern(re).List()
	var r *coregex.Regex
	if msg, pan := catchPanic(func() { r, err = coregex.Compile(c.Pattern) }); pan {
		return mk("PANIC", "", feats, "", msg)
	}
	if err != nil || r == nil {
		return nil
	}
	strat := r.VerifEngine().Strategy().String()
	env.Count("strategy", strat)
	env.Count("api", c.API)
	states := 1
	if n, err := nfa.NewDefaultCompiler().CompileRegexp(re); err == nil {
		states = n.States()
	}
	pre := (&core.DiffCase{HayQ: c.Prefix}).Hay()
	unit := (&core.DiffCase{HayQ: c.Unit}).Hay()
	suf := (&core.DiffCase{HayQ: c.Suffix}).Hay()
	var works []uint64
	var lens []int
	const K, C = 400, 300_000
	for i := 0; i < 5; i++ {
		n := c.N << uint(i)
		h := make([]byte, 0, len(pre)+n*len(unit)+len(suf))
		h = append(h, pre...)
		for j := 0; j < n; j++ {
			h = append(h, unit...)
		}
		h = append(h, suf...)
		var w uint64
		msg, pan := catchPanic(func() {
			w, err = measure(func() {
				switch c.API {
				case "Match":
					r.Match(h)
				case "FindIndex":
					r.FindIndex(h)
				default:
					r.FindSubmatchIndex(h)
				}
			})
		})
		if pan {
			return mk("PANIC", strat, feats, "", msg)
		}
		if err != nil {
			return &core.Failure{Disc: core.Disc{Prop: "C05", Kind: "HARNESS", Detail: err.Error()}, Case: c}
		}
		works = append(works, w)
		lens = append(lens, len(h))
		bound := uint64(K)*uint64(states+1)*uint64(len(h)+1) + C
		if w > bound {
			env.Count("verdict", "over_absolute_bound")
			return mk("WORK_OVER_BOUND", strat, feats, fmt.Sprintf("<= %d*(%d+1)*(%d+1)+%d = %d", K, states, len(h), C, bound), fmt.Sprintf("work=%d (sizes %v works %v)", w, lens, works))
		}
		env.Count("work_per_state_byte", ratioClass(float64(w)/float64((states+1)*(len(h)+1))))
	}
	if works[3] >= 4*works[0] {
		env.NonTrivial(core.HashOf(c.Pattern, c.API, c.Unit))
		env.Count("scanned", "yes")
	} else {
		env.Count("scanned", "no")
	}
	// growth: doublings whose factor exceeds 2.6 (after discounting constant work)
	bad := 0
	for i := 1; i < len(works); i++ {
		a, b := float64(works[i-1]), float64(works[i])
		if b > 2.6*a+100_000 {
			bad++
		}
	}
	if bad >= 3 {
		env.Count("verdict", "superlinear")
		return mk("SUPERLINEAR", strat, feats, "at most 2 of 4 doublings above factor 2.6", fmt.Sprintf("sizes %v works %v", lens, works))
	}
	env.Count("verdict", "linear")
	return nil
}

func ratioClass(x float64) string {
	switch {
	case x < 1:
		return "<1"
	case x < 5:
		return "1-5"
	case x < 20:
		return "5-20"
	case x < 60:
		return "20-60"
	case x < 150:
		return "60-150"
	case x < 400:
		return "150-400"
	}
	return ">=400"
}
