package props

import (
	"bytes"
	"encoding/json"
	"fmt"
	"regexp"
	"regexp/syntax"

	"pgregory.net/rapid"

	"github.com/coregx/coregex/literal"

	"verif/harness/internal/core"
	"verif/harness/internal/feat"
	"verif/harness/internal/gen"
)

// C17: extracted literals are necessary for every match.

type c17Case struct {
	Prop    string                  `json:"property"`
	Pattern string                  `json:"pattern"`
	Cfg     literal.ExtractorConfig `json:"extractor_config"`
	Samples []string                `json:"samples"`         // Go-quoted candidate strings from the pattern's language
	SeqA    []string                `json:"seq_a,omitempty"` // generated literal sequence for the algebraic laws
	SeqB    []string                `json:"seq_b,omitempty"`
	CompA   []bool                  `json:"complete_a,omitempty"`
	Keep    int                     `json:"keep,omitempty"`
	Source  string                  `json:"source,omitempty"`
}

type c17 struct{}

func NewC17() core.Property { return &c17{} }
func (*c17) ID() string     { return "C17" }
func (*c17) Rule() string {
	return "pattern x extractor limits (MaxLiterals 1-300, MaxLiteralLen 1-64, MaxClassSize 1-20, CrossProductLimit 1-300) x 20-60 strings sampled from the pattern's own language (each reduced to the leftmost-first match regexp finds in it); every match must start with a prefix literal / end with a suffix literal / contain an inner literal unless the sequence is empty, infinite or flagged partial; when all literals are complete the match must be exactly the first literal (in order) that is a prefix; plus algebraic laws of Minimize, Dedup, KeepFirstBytes, CrossForward, LongestCommonPrefix/Suffix on generated sequences. Non-trivial: an extractor returned a non-empty finite sequence and >= 10 distinct matches were sampled; distinct by hash(pattern, limits)."
}
func (*c17) Decode(raw json.RawMessage) (any, error) {
	var c c17Case
	if err := json.Unmarshal(raw, &c); err != nil {
		return nil, err
	}
	return &c, nil
}

func (*c17) Gen(t core.RT, env *core.Env) any {
	o := gen.AllOpts()
	pi := gen.Pattern(t, o, 1, 1)
	c := &c17Case{Prop: "C17", Pattern: pi.Pattern, Source: pi.Source}
	c.Cfg = literal.ExtractorConfig{
		MaxLiterals:       []int{64, 1, 2, 3, 8, 32, 256, 300}[pickIdx(t, "ml", 5, 1, 1, 1, 2, 1, 2, 1)],
		MaxLiteralLen:     []int{64, 1, 2, 3, 4, 8}[pickIdx(t, "mll", 5, 1, 1, 1, 1, 1)],
		MaxClassSize:      []int{10, 1, 2, 5, 20}[pickIdx(t, "mcs", 5, 1, 1, 1, 1)],
		CrossProductLimit: []int{250, 1, 2, 10, 300}[pickIdx(t, "cpl", 5, 1, 1, 1, 1)],
	}
	re, err := syntax.Parse(pi.Pattern, syntax.Perl)
	if err == nil {
		n := rapid.IntRange(20, 60).Draw(t, "ns")
		for i := 0; i < n; i++ {
			b := 80
			s := gen.Sample(t, re, gen.HOpts{NonASCII: true}, &b)
			c.Samples = append(c.Samples, core.QuoteHay(s))
		}
	}
	// sequences for the algebraic laws
	na := rapid.IntRange(0, 6).Draw(t, "na")
	for i := 0; i < na; i++ {
		c.SeqA = append(c.SeqA, core.QuoteHay(drawLit(t, 0, 5, "abc")))
		c.CompA = append(c.CompA, rapid.Bool().Draw(t, "ca"))
	}
	nb := rapid.IntRange(0, 4).Draw(t, "nb")
	for i := 0; i < nb; i++ {
		c.SeqB = append(c.SeqB, core.QuoteHay(drawLit(t, 0, 4, "abc")))
	}
	c.Keep = rapid.IntRange(0, 5).Draw(t, "keep")
	return c
}

func seqLits(s *literal.Seq) [][]byte {
	var out [][]byte
	for i := 0; i < s.Len(); i++ {
		out = append(out, s.Get(i).Bytes)
	}
	return out
}

func usable(s *literal.Seq) bool {
	return s != nil && !s.IsEmpty() && s.IsFinite() && !s.IsPartialCoverage()
}

func (p *c17) Run(ci any, env *core.Env) *core.Failure {
	c := ci.(*c17Case)
	env.Eval()
	env.Sample(c)
	mk := func(api, kind, exp, got string, feats []string) *core.Failure {
		site := "default_limits"
		if c.Cfg.MaxLiterals < 64 || c.Cfg.MaxLiteralLen < 64 || c.Cfg.MaxClassSize < 10 || c.Cfg.CrossProductLimit < 250 {
			site = "reduced_limits"
		}
		d := &core.Disc{Prop: "C17", API: api, Group: "literal", Kind: kind, Layer: "literal", Feats: feats, Site: site, Expected: exp, Observed: got}
		return env.Known(d, c)
	}
	if f := p.laws(c, env, mk); f != nil {
		return f
	}
	re, err := syntax.Parse(c.Pattern, syntax.Perl)
	if err != nil {
		return nil
	}
	std, err := regexp.Compile(c.Pattern)
	if err != nil {
		return nil
	}
	feats := feat.Pattern(re).List()
	var pre, suf, inn, rinn *literal.Seq
	msg, pan := catchPanic(func() {
		// the extractor may simplify/modify the tree: give every call its own parse
		r1, _ := syntax.Parse(c.Pattern, syntax.Perl)
		pre = literal.New(c.Cfg).ExtractPrefixes(r1)
		r2, _ := syntax.Parse(c.Pattern, syntax.Perl)
		suf = literal.New(c.Cfg).ExtractSuffixes(r2)
		r3, _ := syntax.Parse(c.Pattern, syntax.Perl)
		inn = literal.New(c.Cfg).ExtractInner(r3)
		r4, _ := syntax.Parse(c.Pattern, syntax.Perl)
		if info := literal.New(c.Cfg).ExtractInnerForReverseSearch(r4); info != nil {
			rinn = info.Literals
		}
	})
	if pan {
		return mk("Extract", "PANIC", "sequences", msg, feats)
	}
	// distinct confirmed matches
	seen := map[string]bool{}
	var matches [][]byte
	for _, q := range c.Samples {
		s := (&core.DiffCase{HayQ: q}).Hay()
		m := std.Find(s)
		if m == nil {
			continue
		}
		if !seen[string(m)] {
			seen[string(m)] = true
			matches = append(matches, m)
		}
	}
	env.Count("matches_per_case", feat.SizeClass(len(matches)))
	anyUsable := false
	for _, x := range []struct {
		name string
		seq  *literal.Seq
		ok   func(m, l []byte) bool
	}{
		{"ExtractPrefixes", pre, bytes.HasPrefix},
		{"ExtractSuffixes", suf, bytes.HasSuffix},
		{"ExtractInner", inn, bytes.Contains},
		{"ExtractInnerForReverseSearch", rinn, bytes.Contains},
	} {
		if !usable(x.seq) {
			env.Count("extract", x.name+":no_information")
			continue
		}
		anyUsable = true
		env.Count("extract", x.name+":usable")
		lits := seqLits(x.seq)
		for _, m := range matches {
			found := false
			for _, l := range lits {
				if x.ok(m, l) {
					found = true
					break
				}
			}
			if !found {
				if f := mk(x.name, "MISSING_LITERAL", fmt.Sprintf("match %q has one of the literals", m), fmt.Sprintf("literals %q", lits), feats); f != nil {
					return f
				}
				break
			}
		}
	}
	if anyUsable && len(matches) >= 10 {
		env.NonTrivial(core.HashOf(c.Pattern, fmt.Sprint(c.Cfg)))
	}
	// complete literals
	if usable(pre) {
		full, err := regexp.Compile(`\A(?:` + c.Pattern + `)\z`)
		if err == nil {
			for i := 0; i < pre.Len(); i++ {
				l := pre.Get(i)
				if l.Complete && !full.Match(l.Bytes) {
					if f := mk("ExtractPrefixes", "COMPLETE_NOT_A_MATCH", fmt.Sprintf("complete literal %q is an entire match", l.Bytes), "regexp does not match it entirely", feats); f != nil {
						return f
					}
					break
				}
			}
		}
		if pre.AllComplete() {
			lits := seqLits(pre)
			for _, m := range matches {
				var first []byte
				ok := false
				for _, l := range lits {
					if bytes.HasPrefix(m, l) {
						first, ok = l, true
						break
					}
				}
				if !ok || !bytes.Equal(first, m) {
					if f := mk("ExtractPrefixes", "COMPLETE_NOT_EXACT", fmt.Sprintf("match %q equals the first literal that is its prefix", m), fmt.Sprintf("first=%q of %q", first, lits), feats); f != nil {
						return f
					}
					break
				}
			}
		}
	}
	return nil
}

func mkSeq(qs []string, comp []bool) *literal.Seq {
	ls := make([]literal.Literal, len(qs))
	for i, q := range qs {
		cmp := true
		if i < len(comp) {
			cmp = comp[i]
		}
		ls[i] = literal.NewLiteral((&core.DiffCase{HayQ: q}).Hay(), cmp)
	}
	return literal.NewSeq(ls...)
}

func hasPrefixIn(x []byte, lits [][]byte) bool {
	for _, l := range lits {
		if bytes.HasPrefix(x, l) {
			return true
		}
	}
	return false
}

// laws: the language denoted by a sequence (strings having one of its literals as a prefix)
// may only grow under Minimize/Dedup/KeepFirstBytes; completeness may only be dropped.
func (p *c17) laws(c *c17Case, env *core.Env, mk func(api, kind, exp, got string, feats []string) *core.Failure) *core.Failure {
	if len(c.SeqA) == 0 {
		return nil
	}
	orig := seqLits(mkSeq(c.SeqA, c.CompA))
	// probe strings: every literal and every literal extended
	var probes [][]byte
	for _, l := range orig {
		probes = append(probes, l, append(append([]byte(nil), l...), 'a'), append(append([]byte(nil), l...), 'c', 'b'))
	}
	type op struct {
		name string
		f    func(s *literal.Seq)
	}
	for _, o := range []op{
		{"Minimize", func(s *literal.Seq) { s.Minimize() }},
		{"Dedup", func(s *literal.Seq) { s.Dedup() }},
		{"KeepFirstBytes", func(s *literal.Seq) { s.KeepFirstBytes(c.Keep) }},
	} {
		s := mkSeq(c.SeqA, c.CompA)
		if msg, pan := catchPanic(func() { o.f(s) }); pan {
			return mk("Seq."+o.name, "PANIC", "", msg, nil)
		}
		env.Count("laws", o.name)
		after := seqLits(s)
		if o.name == "KeepFirstBytes" && c.Keep == 0 {
			continue // degenerate: documented as "keep nothing"
		}
		for _, x := range probes {
			if hasPrefixIn(x, orig) && !hasPrefixIn(x, after) && len(after) > 0 {
				if f := mk("Seq."+o.name, "LANGUAGE_SHRANK", fmt.Sprintf("%q still covered", x), fmt.Sprintf("before %q after %q", orig, after), nil); f != nil {
					return f
				}
				break
			}
		}
		// completeness may only be dropped: a complete literal after the operation must be a
		// complete literal of the original
		for i := 0; i < s.Len(); i++ {
			l := s.Get(i)
			if !l.Complete {
				continue
			}
			ok := false
			for j, q := range c.SeqA {
				if bytes.Equal((&core.DiffCase{HayQ: q}).Hay(), l.Bytes) && (j >= len(c.CompA) || c.CompA[j]) {
					ok = true
				}
			}
			if !ok {
				if f := mk("Seq."+o.name, "COMPLETENESS_INVENTED", "complete literals come from complete originals", fmt.Sprintf("%q", l.Bytes), nil); f != nil {
					return f
				}
				break
			}
		}
	}
	// LCP / LCS
	s := mkSeq(c.SeqA, c.CompA)
	var lcp, lcs []byte
	if msg, pan := catchPanic(func() { lcp, lcs = s.LongestCommonPrefix(), s.LongestCommonSuffix() }); pan {
		return mk("Seq.LongestCommon", "PANIC", "", msg, nil)
	}
	for _, l := range orig {
		if !bytes.HasPrefix(l, lcp) {
			if f := mk("Seq.LongestCommonPrefix", "NOT_COMMON", fmt.Sprintf("prefix of %q", l), fmt.Sprintf("%q", lcp), nil); f != nil {
				return f
			}
		}
		if !bytes.HasSuffix(l, lcs) {
			if f := mk("Seq.LongestCommonSuffix", "NOT_COMMON", fmt.Sprintf("suffix of %q", l), fmt.Sprintf("%q", lcs), nil); f != nil {
				return f
			}
		}
	}
	// CrossForward: every concatenation a+b keeps a covering literal
	if len(c.SeqB) > 0 {
		a := mkSeq(c.SeqA, nil) // all complete
		b := mkSeq(c.SeqB, nil)
		if msg, pan := catchPanic(func() { a.CrossForward(b) }); pan {
			return mk("Seq.CrossForward", "PANIC", "", msg, nil)
		}
		env.Count("laws", "CrossForward")
		after := seqLits(a)
		for _, x := range orig {
			for _, y := range seqLits(mkSeq(c.SeqB, nil)) {
				xy := append(append([]byte(nil), x...), y...)
				if len(after) > 0 && !hasPrefixIn(xy, after) {
					if f := mk("Seq.CrossForward", "LANGUAGE_SHRANK", fmt.Sprintf("%q covered", xy), fmt.Sprintf("%q", after), nil); f != nil {
						return f
					}
				}
			}
		}
	}
	return nil
}
