package props

import (
	"encoding/json"
	"fmt"
	"regexp"
	"regexp/syntax"

	"pgregory.net/rapid"

	"github.com/coregx/coregex"
	"github.com/coregx/coregex/meta"

	"verif/harness/internal/core"
	"verif/harness/internal/feat"
	"verif/harness/internal/gen"
)

// C12: optimisation settings never change answers.

type cfgCase struct {
	Prop    string      `json:"property"`
	Pattern string      `json:"pattern"`
	HayQ    string      `json:"haystack"`
	Cfg     meta.Config `json:"config"`
	N       int         `json:"n"`
	Source  string      `json:"source,omitempty"`
}

type c12 struct{}

func NewC12() core.Property { return &c12{} }
func (*c12) ID() string     { return "C12" }
func (*c12) Rule() string {
	return "meta.Config values (every boolean; limits at minimum valid / tiny / default / maximum valid, plus invalid ones that must be rejected with an error) x patterns x haystacks; Match, FindIndex, FindSubmatchIndex, FindAllIndex(n), FindAllSubmatchIndex(n), Count under CompileWithConfig(p,cfg) and under Compile(p) are compared with the plain NFA simulation (nfa.PikeVM, stdlib iteration rules) - equality of both with the third implies cfg == default; the whole seeded stream is repeated in processes with GODEBUG=cpu.avx2=off and cpu.avx2=off,cpu.ssse3=off. Non-trivial: the configuration changes the selected strategy w.r.t. the default configuration and some API reports a match; distinct by hash(config, pattern, haystack)."
}
func (*c12) Assumptions() []string {
	return []string{"the reference of C12 is coregex's own plain NFA simulation; inputs on which that simulation itself deviates from regexp are localised as layer=nfa and judged by the nfa-level findings"}
}
func (*c12) Decode(raw json.RawMessage) (any, error) {
	var c cfgCase
	if err := json.Unmarshal(raw, &c); err != nil {
		return nil, err
	}
	return &c, nil
}

func drawConfig(t core.RT) meta.Config {
	cfg := meta.DefaultConfig()
	cfg.EnableDFA = rapid.IntRange(0, 3).Draw(t, "dfa") != 0
	cfg.EnablePrefilter = rapid.IntRange(0, 3).Draw(t, "pf") != 0
	cfg.EnableASCIIOptimization = rapid.Bool().Draw(t, "ascii")
	cfg.MaxDFAStates = []uint32{10000, 1, 2, 10, 100, 1_000_000, 0, 1_000_001}[pickIdx(t, "mds", 6, 2, 2, 2, 2, 1, 1, 1)]
	cfg.DeterminizationLimit = []int{1000, 10, 11, 50, 100_000, 9, 100_001}[pickIdx(t, "dl", 6, 2, 2, 2, 1, 1, 1)]
	cfg.MinLiteralLen = []int{1, 2, 3, 5, 64, 0, 65}[pickIdx(t, "mll", 6, 2, 2, 1, 1, 1, 1)]
	cfg.MaxLiterals = []int{256, 1, 2, 8, 64, 1000, 0, 1001}[pickIdx(t, "ml", 6, 2, 2, 2, 2, 1, 1, 1)]
	cfg.MaxRecursionDepth = []int{100, 10, 20, 1000, 9, 1001}[pickIdx(t, "mrd", 8, 1, 1, 2, 1, 1)]
	return cfg
}

func pickIdx(t core.RT, label string, weights ...int) int {
	total := 0
	for _, w := range weights {
		total += w
	}
	x := rapid.IntRange(0, total-1).Draw(t, label)
	for i, w := range weights {
		if x < w {
			return i
		}
		x -= w
	}
	return 0
}

func (*c12) Gen(t core.RT, env *core.Env) any {
	pi, h := drawPatternHay(t, gen.AllOpts(), gen.HOpts{NonASCII: true, Invalid: true, Long: true, MaxLen: 4096})
	return &cfgCase{Prop: "C12", Pattern: pi.Pattern, HayQ: core.QuoteHay(h), Cfg: drawConfig(t), N: []int{-1, -1, 0, 1, 2}[rapid.IntRange(0, 4).Draw(t, "n")], Source: pi.Source}
}

type cfgEngine struct {
	name  string
	re    *coregex.Regex
	strat string
}

func (p *c12) Run(ci any, env *core.Env) *core.Failure {
	c := ci.(*cfgCase)
	env.Eval()
	env.Sample(c)
	dc := &core.DiffCase{HayQ: c.HayQ}
	h := dc.Hay()
	std, err := regexp.Compile(c.Pattern)
	if err != nil {
		env.Count("domain", "rejected_by_regexp")
		return nil
	}
	_ = std
	cc, pan := core.CompileBoth(c.Pattern, "")
	if pan != nil {
		return env.Known(&core.Disc{Prop: "C12", Kind: "COMPILE_PANIC", Detail: pan.(string)}, c)
	}
	if cc == nil || cc.Co == nil {
		env.Count("domain", "rejected")
		return nil
	}
	hc := feat.HayClass(h)
	mk := func(kind, api, group, strat, exp, got string) *core.Failure {
		site := "limits=default"
		if c.Cfg.MaxDFAStates < 100 || c.Cfg.DeterminizationLimit < 100 {
			site = "limits=tiny-dfa"
		}
		if c.Cfg.MaxLiterals < 64 {
			site += ",few-literals"
		}
		d := &core.Disc{Prop: "C12", API: api, Group: group, Mode: "first", Kind: kind, Strategy: strat, Feats: cc.Feats, Hay: hc, Site: site, Expected: exp, Observed: got}
		d.Layer = cc.Layer(h)
		return env.Known(d, c)
	}
	valid := c.Cfg.Validate() == nil
	var rc *coregex.Regex
	var cerr error
	_, pans := core.SafeCall(func() any {
		rc, cerr = coregex.CompileWithConfig(c.Pattern, c.Cfg)
		return nil
	})
	if pans != "" {
		return mk("CONFIG_PANIC", "CompileWithConfig", "config", cc.Strategy, "error or value", pans)
	}
	if !valid {
		env.Count("config", "invalid")
		env.NonTrivial(core.HashOf("invalid", fmt.Sprint(c.Cfg)))
		if cerr == nil {
			return mk("INVALID_CONFIG_ACCEPTED", "CompileWithConfig", "config", cc.Strategy, "error", "nil error")
		}
		return nil
	}
	env.Count("config", "valid")
	if cerr != nil {
		if c.Cfg.MaxRecursionDepth < 100 {
			env.Count("config", "declined_recursion_limit")
			return nil
		}
		return mk("VALID_CONFIG_REJECTED", "CompileWithConfig", "config", cc.Strategy, "compiles like default", cerr.Error())
	}
	cstrat := ""
	if eng, err := meta.CompileWithConfig(c.Pattern, c.Cfg); err == nil {
		cstrat = eng.Strategy().String()
	}
	env.Count("strategy_cfg", cstrat)
	env.Count("strategy_default", cc.Strategy)
	env.Count("hay_class", hc)
	if cc.Pike() == nil {
		env.Count("domain", "no_pike")
		return nil
	}
	if cstrat != cc.Strategy {
		env.Count("strategy_changed", "yes")
		if cc.Co.Match(h) {
			env.NonTrivial(core.HashOf(fmt.Sprint(c.Cfg), c.Pattern, c.HayQ))
		}
	}
	// reference answers from the plain simulation
	ref := cc.PikeRef(h, c.N)
	for _, eng := range []cfgEngine{{"cfg", rc, cstrat}, {"default", cc.Co, cc.Strategy}} {
		var got *core.RefAnswers
		_, pans := core.SafeCall(func() any { got = core.CoAnswers(eng.re, h, c.N); return nil })
		if pans != "" {
			if f := mk("PANIC", "search", "find", eng.strat, "", pans); f != nil {
				return f
			}
			continue
		}
		for _, cmp := range ref.Compare(got) {
			env.Count("api", cmp.API)
			if cmp.Exp != cmp.Got {
				if f := mk(cmp.Kind, cmp.API, cmp.Group, eng.strat, cmp.Exp, cmp.Got); f != nil {
					return f
				}
			}
		}
	}
	return nil
}

var _ = syntax.Perl
