package props

import (
	"bytes"
	"encoding/json"
	"fmt"

	"pgregory.net/rapid"

	"github.com/coregx/coregex/simd"

	"verif/harness/internal/core"
	"verif/harness/internal/guard"
)

// C18: vectorised byte-search primitives equal their scalar definitions and touch no
// memory outside the slice.

type c18Case struct {
	Prop   string `json:"property"`
	Fn     string `json:"fn"`
	BufQ   string `json:"buffer"` // Go-quoted
	N1     byte   `json:"n1"`
	N2     byte   `json:"n2"`
	N3     byte   `json:"n3"`
	Offset int    `json:"offset,omitempty"` // MemchrPair offset / MemchrDigitAt at
	Needle string `json:"needle,omitempty"` // Go-quoted Memmem needle
	Table  string `json:"table,omitempty"`  // Go-quoted set of bytes in the table
	Slack  int    `json:"slack"`            // distance of the buffer end from the guard page (0..63)
	Front  bool   `json:"front,omitempty"`  // place the buffer start against the front guard page instead
}

var c18Fns = []string{"Memchr", "Memchr2", "Memchr3", "MemchrPair", "Memmem", "MemchrDigit", "MemchrDigitAt", "MemchrWord", "MemchrNotWord", "MemchrInTable", "MemchrNotInTable", "IsASCII", "CountNonASCII", "FirstNonASCII"}

type c18 struct {
	pool guard.Pool
}

func NewC18() core.Property { return &c18{} }
func (*c18) ID() string     { return "C18" }
func (*c18) Rule() string {
	return "every exported simd primitive vs its one-line scalar definition. Sweep (complete, per run): for each function, every length 0..200 x hit position (none, each index) with the buffer end flush against an inaccessible page and the buffer start flush against one, read-only data pages. Generated: lengths to 1 MiB (thorough) / 16 KiB (quick), contents adversarial for the function (fingerprint bytes without full hit, periodic needles, rare bytes), needles 1..70 bytes for Memmem, arbitrary tables, placement slack 0..63; whole run repeated with AVX2 and SSSE3 masked via GODEBUG. Any fault is an out-of-bounds access. Non-trivial: length >= 16 and a hit exists, or the buffer ends within 64 bytes of the guard page; distinct by hash of the case."
}
func (*c18) Decode(raw json.RawMessage) (any, error) {
	var c c18Case
	if err := json.Unmarshal(raw, &c); err != nil {
		return nil, err
	}
	return &c, nil
}

func (*c18) Gen(t core.RT, env *core.Env) any {
	c := &c18Case{Prop: "C18"}
	c.Fn = c18Fns[rapid.IntRange(0, len(c18Fns)-1).Draw(t, "fn")]
	maxLen := 16384
	if env.Thorough {
		maxLen = 1 << 20
	}
	var n int
	switch pickIdx(t, "lc", 3, 4, 4, 3, 1) {
	case 0:
		n = rapid.IntRange(0, 15).Draw(t, "len")
	case 1:
		n = rapid.IntRange(16, 70).Draw(t, "len")
	case 2:
		n = rapid.IntRange(71, 300).Draw(t, "len")
	case 3:
		n = rapid.IntRange(301, 5000).Draw(t, "len")
	default:
		n = rapid.IntRange(5001, maxLen).Draw(t, "len")
	}
	c.N1 = []byte("a0_ \x80zA9\xff\x00/:@[`{")[rapid.IntRange(0, 15).Draw(t, "n1")]
	c.N2 = []byte("b1_ \x80zA9\xff\x00/:@[`{")[rapid.IntRange(0, 15).Draw(t, "n2")]
	c.N3 = []byte("c2- \x81yZ0\xfe\x01/:@[`{")[rapid.IntRange(0, 15).Draw(t, "n3")]
	// filler that avoids (or for negated searches: consists of) the interesting bytes
	fillers := []byte("x.#\x7f\x90~!")
	switch c.Fn {
	case "MemchrNotWord", "IsASCII", "CountNonASCII", "FirstNonASCII":
		fillers = []byte("xyzXYZ019_")
	}
	buf := make([]byte, n)
	f1 := fillers[rapid.IntRange(0, len(fillers)-1).Draw(t, "f1")]
	f2 := fillers[rapid.IntRange(0, len(fillers)-1).Draw(t, "f2")]
	period := rapid.IntRange(1, 9).Draw(t, "period")
	for i := range buf {
		if i%period == 0 {
			buf[i] = f2
		} else {
			buf[i] = f1
		}
	}
	// sprinkle hits / near hits
	nh := rapid.IntRange(0, 3).Draw(t, "nh")
	interesting := []byte{c.N1, c.N2, c.N3, '5', 'w', '-', 0x80, 0xc3, 'a'}
	for i := 0; i < nh && n > 0; i++ {
		pos := rapid.IntRange(0, n-1).Draw(t, "hp")
		if rapid.IntRange(0, 3).Draw(t, "tail") == 0 {
			pos = n - 1 - rapid.IntRange(0, min(n-1, 40)).Draw(t, "tp")
		}
		buf[pos] = interesting[rapid.IntRange(0, len(interesting)-1).Draw(t, "hb")]
	}
	c.Offset = rapid.IntRange(0, 12).Draw(t, "off")
	if c.Fn == "MemchrDigitAt" {
		c.Offset = rapid.IntRange(0, n+2).Draw(t, "at")
	}
	if c.Fn == "Memmem" {
		nl := rapid.IntRange(0, 70).Draw(t, "nl")
		if rapid.IntRange(0, 2).Draw(t, "nlk") == 0 {
			nl = rapid.IntRange(0, 5).Draw(t, "nls")
		}
		needle := make([]byte, nl)
		for i := range needle {
			needle[i] = []byte{f1, f2, c.N1, c.N2}[rapid.IntRange(0, 3).Draw(t, "nb")]
		}
		// embed the needle (or a near miss) somewhere
		if nl > 0 && n >= nl {
			switch rapid.IntRange(0, 3).Draw(t, "emb") {
			case 0, 1:
				pos := rapid.IntRange(0, n-nl).Draw(t, "ep")
				copy(buf[pos:], needle)
			case 2:
				copy(buf[n-nl:], needle) // at the very end
			default:
				pos := rapid.IntRange(0, n-nl).Draw(t, "ep")
				copy(buf[pos:], needle[:nl-1]) // near miss: all but the last byte
			}
		}
		c.Needle = core.QuoteHay(needle)
	}
	if c.Fn == "MemchrInTable" || c.Fn == "MemchrNotInTable" {
		k := rapid.IntRange(0, 6).Draw(t, "tk")
		var tb []byte
		for i := 0; i < k; i++ {
			tb = append(tb, interesting[rapid.IntRange(0, len(interesting)-1).Draw(t, "tb")])
		}
		if c.Fn == "MemchrNotInTable" {
			tb = append(tb, f1, f2)
		}
		c.Table = core.QuoteHay(tb)
	}
	c.Slack = rapid.IntRange(0, 63).Draw(t, "slack")
	if rapid.IntRange(0, 2).Draw(t, "flush") != 0 {
		c.Slack = 0
	}
	c.Front = rapid.IntRange(0, 3).Draw(t, "front") == 0
	c.BufQ = core.QuoteHay(buf)
	return c
}

func isWord(b byte) bool {
	return b >= 'a' && b <= 'z' || b >= 'A' && b <= 'Z' || b >= '0' && b <= '9' || b == '_'
}

func firstIdx(h []byte, from int, pred func(byte) bool) int {
	for i := from; i < len(h); i++ {
		if pred(h[i]) {
			return i
		}
	}
	return -1
}

// scalar returns the reference value of one primitive.
func (c *c18Case) scalar(h, needle []byte, table *[256]bool) any {
	switch c.Fn {
	case "Memchr":
		return firstIdx(h, 0, func(b byte) bool { return b == c.N1 })
	case "Memchr2":
		return firstIdx(h, 0, func(b byte) bool { return b == c.N1 || b == c.N2 })
	case "Memchr3":
		return firstIdx(h, 0, func(b byte) bool { return b == c.N1 || b == c.N2 || b == c.N3 })
	case "MemchrPair":
		for i := 0; i+c.Offset < len(h); i++ {
			if h[i] == c.N1 && h[i+c.Offset] == c.N2 {
				return i
			}
		}
		return -1
	case "Memmem":
		return bytes.Index(h, needle)
	case "MemchrDigit":
		return firstIdx(h, 0, func(b byte) bool { return b >= '0' && b <= '9' })
	case "MemchrDigitAt":
		if c.Offset >= len(h) {
			return -1
		}
		return firstIdx(h, c.Offset, func(b byte) bool { return b >= '0' && b <= '9' })
	case "MemchrWord":
		return firstIdx(h, 0, isWord)
	case "MemchrNotWord":
		return firstIdx(h, 0, func(b byte) bool { return !isWord(b) })
	case "MemchrInTable":
		return firstIdx(h, 0, func(b byte) bool { return table[b] })
	case "MemchrNotInTable":
		return firstIdx(h, 0, func(b byte) bool { return !table[b] })
	case "IsASCII":
		return firstIdx(h, 0, func(b byte) bool { return b >= 0x80 }) < 0
	case "CountNonASCII":
		n := 0
		for _, b := range h {
			if b >= 0x80 {
				n++
			}
		}
		return n
	case "FirstNonASCII":
		return firstIdx(h, 0, func(b byte) bool { return b >= 0x80 })
	}
	return nil
}

func (c *c18Case) call(h, needle []byte, table *[256]bool) any {
	switch c.Fn {
	case "Memchr":
		return simd.Memchr(h, c.N1)
	case "Memchr2":
		return simd.Memchr2(h, c.N1, c.N2)
	case "Memchr3":
		return simd.Memchr3(h, c.N1, c.N2, c.N3)
	case "MemchrPair":
		return simd.MemchrPair(h, c.N1, c.N2, c.Offset)
	case "Memmem":
		return simd.Memmem(h, needle)
	case "MemchrDigit":
		return simd.MemchrDigit(h)
	case "MemchrDigitAt":
		return simd.MemchrDigitAt(h, c.Offset)
	case "MemchrWord":
		return simd.MemchrWord(h)
	case "MemchrNotWord":
		return simd.MemchrNotWord(h)
	case "MemchrInTable":
		return simd.MemchrInTable(h, table)
	case "MemchrNotInTable":
		return simd.MemchrNotInTable(h, table)
	case "IsASCII":
		return simd.IsASCII(h)
	case "CountNonASCII":
		return simd.CountNonASCII(h)
	case "FirstNonASCII":
		return simd.FirstNonASCII(h)
	}
	return nil
}

func (p *c18) reg(size int) *guard.Region { return p.pool.For(size) }

func (p *c18) Run(ci any, env *core.Env) *core.Failure {
	c := ci.(*c18Case)
	env.Eval()
	env.Sample(c18Summary(c))
	return p.runCase(c, env, true)
}

func (p *c18) runCase(c *c18Case, env *core.Env, stats bool) *core.Failure {
	buf := (&core.DiffCase{HayQ: c.BufQ}).Hay()
	needle := (&core.DiffCase{HayQ: c.Needle}).Hay()
	if c.Needle == "" {
		needle = nil
	}
	var table [256]bool
	for _, b := range (&core.DiffCase{HayQ: c.Table}).Hay() {
		if c.Table != "" {
			table[b] = true
		}
	}
	want := c.scalar(buf, needle, &table)
	r := p.reg(len(buf) + 128)
	var h []byte
	if c.Front {
		h = r.AtStart(buf, c.Slack)
	} else {
		h = r.AtEnd(buf, c.Slack)
	}
	// the needle gets its own flush placement inside the same region when it fits before h
	// No mprotect toggling here (it dominates the run time when 16 workers do it per
	// case): over-reads and over-writes hit the inaccessible neighbour pages, and a write
	// into the buffer itself is caught by the content comparison below.
	var got any
	msg, pan := guard.Call(func() { got = c.call(h, needle, &table) })
	if stats {
		env.Count("fn", c.Fn)
		hit := false
		if i, ok := want.(int); ok && i >= 0 {
			hit = true
		}
		if len(buf) >= 16 && hit || c.Slack < 64 {
			b, _ := json.Marshal(c)
			env.NonTrivial(core.HashOf(string(b)))
		}
	}
	mk := func(kind, exp, obs string) *core.Failure {
		d := &core.Disc{Prop: "C18", API: "simd." + c.Fn, Group: "simd", Kind: kind, Layer: "simd", Expected: exp, Observed: obs}
		return env.Known(d, c)
	}
	if pan {
		return mk("FAULT", core.Canon(want), msg)
	}
	if !bytes.Equal(h, buf) {
		return mk("MODIFIED", "buffer unchanged", "buffer modified")
	}
	if core.Canon(want) != core.Canon(got) {
		return mk("DIFF", core.Canon(want), core.Canon(got))
	}
	return nil
}

func c18Summary(c *c18Case) any {
	cp := *c
	if len(cp.BufQ) > 120 {
		cp.BufQ = cp.BufQ[:120] + fmt.Sprintf("...(%d quoted bytes)", len(c.BufQ))
	}
	return &cp
}

// Sweep is the complete enumeration: function x length 0..200 x hit position x placement.
// The shard handles lengths congruent to its index modulo 16.
func (p *c18) Sweep(env *core.Env, shards int) *core.Failure {
	for L := env.Shard; L <= 200; L += shards {
		for _, fn := range c18Fns {
			for hit := -1; hit < L; hit++ {
				buf := bytes.Repeat([]byte{'.'}, L)
				c := &c18Case{Prop: "C18", Fn: fn, N1: 'a', N2: 'b', N3: 'c', Offset: 1}
				switch fn {
				case "MemchrNotWord", "IsASCII", "CountNonASCII", "FirstNonASCII":
					buf = bytes.Repeat([]byte{'x'}, L)
				case "MemchrNotInTable":
					c.Table = core.QuoteHay([]byte{'.'})
				case "MemchrInTable":
					c.Table = core.QuoteHay([]byte{'a', 'q'})
				}
				if fn == "Memmem" {
					c.Needle = core.QuoteHay([]byte("ab"))
				}
				if fn == "MemchrDigitAt" {
					c.Offset = L / 3
				}
				if hit >= 0 {
					switch fn {
					case "MemchrDigit", "MemchrDigitAt":
						buf[hit] = '7'
					case "MemchrWord":
						buf[hit] = 'w'
					case "MemchrNotWord":
						buf[hit] = '-'
					case "IsASCII", "CountNonASCII", "FirstNonASCII":
						buf[hit] = 0x9c
					case "MemchrNotInTable":
						buf[hit] = 'Z'
					case "MemchrPair", "Memmem":
						buf[hit] = 'a'
						if hit+1 < L {
							buf[hit+1] = 'b'
						}
					case "Memchr2":
						buf[hit] = 'b'
					case "Memchr3":
						buf[hit] = 'c'
					default:
						buf[hit] = 'a'
					}
				}
				c.BufQ = core.QuoteHay(buf)
				for _, front := range []bool{false, true} {
					c.Front = front
					env.Eval()
					env.Count("sweep", fn)
					if f := p.runCase(c, env, false); f != nil {
						return f
					}
				}
			}
		}
	}
	env.Count("sweep_complete", "lengths_0_200_x_hit_x_placement")
	return nil
}
