package props

import (
	"encoding/json"
	"fmt"
	"regexp"
	"regexp/syntax"
	"unicode"
	"unicode/utf8"

	"pgregory.net/rapid"

	"github.com/coregx/coregex"
	"github.com/coregx/coregex/nfa"

	"verif/harness/internal/core"
	"verif/harness/internal/feat"
	"verif/harness/internal/gen"
)

// C15: compiled byte automata recognise exactly the UTF-8 of the intended runes.

type c15Case struct {
	Prop  string `json:"property"`
	Atom  string `json:"atom"`  // class / literal / dot / folded literal (pattern text)
	Full  bool   `json:"full"`  // sweep every code point (else the boundary-dense subset)
	Bytes int    `json:"bytes"` // enumerate all byte strings up to this length (2 or 3)
	Seed  uint64 `json:"seed"`  // offset of the strided rune sample
}

type c15 struct{}

func NewC15() core.Property { return &c15{} }
func (*c15) ID() string     { return "C15" }
func (*c15) Rule() string {
	return "atoms: classes (ranges hugging 0x7F/0x80, 0x7FF/0x800, 0xFFFF/0x10000, the surrogate gap, 0x10FFFF; Perl/POSIX/Unicode tables; negations; small and >256-member sets), literals, dot, (?s:.), case-folded literals and classes (k/K/KELVIN, s/S/LONG S, sigma orbit). For each atom the NFA is compiled in the modes default, UseRuneStates (sparse dot) and ASCIIOnly (judged on ASCII input only) and simulated by nfa.PikeVM on \\A(?:atom)\\z over utf8(r) for EVERY code point r (thorough; quick: all r < 0x3000, +-40 around every UTF-8 length boundary and every range end of the atom, and a stride-97 sample of the rest), and on ALL byte strings of length <= 2 (and length 3 in the thorough tier) for \\A(?:atom)\\z membership and \\A(?:atom) consumed width; reference = regexp on the same bytes; also end to end through coregex.Regex.Match. Non-trivial: the atom has members in >= 2 UTF-8 length classes or is negated/folded; distinct by hash(atom)."
}
func (*c15) Decode(raw json.RawMessage) (any, error) {
	var c c15Case
	if err := json.Unmarshal(raw, &c); err != nil {
		return nil, err
	}
	return &c, nil
}

var foldAtoms = []string{`(?i)k`, `(?i)s`, `(?i)K`, `(?i)ſ`, `(?i)σ`, `(?i)ς`, `(?i)é`, `(?i)ß`, `(?i)[k-l]`, `(?i)[a-z]`, `(?i)[^k]`, `(?i)ǅ`, `(?i)µ`, `(?i)[α-ω]`, `(?i)ÿ`, `(?i)İ`, `(?i)ı`, `(?i)[^a-zé]`}
var plainAtoms = []string{`.`, `(?s:.)`, `a`, `é`, `€`, `𝒜`, `\x{7f}`, `\x{80}`, `\x{7ff}`, `\x{800}`, `\x{ffff}`, `\x{10000}`, `\x{10ffff}`, `\x{fffd}`, `\x{d7ff}`, `\x{e000}`, `[^\n]`, `[^a]`, `\D`, `\W`, `\S`, `\d`, `\w`, `\s`, `[[:^alpha:]]`, `\pL`, `\PL`, `\p{Greek}`, `\P{Greek}`, `\pN`, `\PN`, `\p{Han}`, `\p{Lu}`, `\P{Lu}`, `[\x{80}-\x{10ffff}]`, `[^\x{80}-\x{10ffff}]`, `[\x{0}-\x{10ffff}]`, `[^\x{fffd}]`, `\pZ`, `\p{Cyrillic}`, `[\pL\pN]`, `[^\pL\pN]`}

func (*c15) Gen(t core.RT, env *core.Env) any {
	c := &c15Case{Prop: "C15"}
	switch pickIdx(t, "kind", 4, 3, 3) {
	case 0:
		c.Atom = plainAtoms[rapid.IntRange(0, len(plainAtoms)-1).Draw(t, "pa")]
	case 1:
		c.Atom = foldAtoms[rapid.IntRange(0, len(foldAtoms)-1).Draw(t, "fa")]
	default:
		o := gen.AllOpts()
		c.Atom = gen.Class(t, o)
		if rapid.IntRange(0, 3).Draw(t, "fold") == 0 {
			c.Atom = "(?i)" + c.Atom
		}
	}
	c.Full = env.Thorough && rapid.IntRange(0, 3).Draw(t, "full") == 0
	c.Bytes = 2
	if env.Thorough && rapid.IntRange(0, 7).Draw(t, "b3") == 0 {
		c.Bytes = 3
	}
	c.Seed = uint64(rapid.IntRange(0, 96).Draw(t, "seed"))
	return c
}

type c15Engine struct {
	name      string
	full      *nfa.PikeVM // \A(?:atom)\z
	prefix    *nfa.PikeVM // \A(?:atom)
	asciiOnly bool
}

func (p *c15) Run(ci any, env *core.Env) *core.Failure {
	c := ci.(*c15Case)
	env.Eval()
	env.Sample(c)
	fullPat := `\A(?:` + c.Atom + `)\z`
	prePat := `\A(?:` + c.Atom + `)`
	stdFull, err := regexp.Compile(fullPat)
	if err != nil {
		env.Count("domain", "rejected_by_regexp")
		return nil
	}
	stdPre := regexp.MustCompile(prePat)
	reAtom, _ := syntax.Parse(c.Atom, syntax.Perl)
	feats := feat.Pattern(reAtom).List()
	curHay := ""
	mk := func(api, kind, site, exp, got string) *core.Failure {
		d := &core.Disc{Prop: "C15", API: api, Group: "bytes", Kind: kind, Layer: "nfa", Feats: feats, Site: site, Hay: curHay, Expected: exp, Observed: got}
		return env.Known(d, c)
	}
	var engines []c15Engine
	var coFull, coPre *coregex.Regex
	if msg, pan := catchPanic(func() {
		for _, m := range []struct {
			name string
			cfg  nfa.CompilerConfig
		}{
			{"default", nfa.CompilerConfig{UTF8: true, MaxRecursionDepth: 100}},
			{"rune-states", nfa.CompilerConfig{UTF8: true, UseRuneStates: true, MaxRecursionDepth: 100}},
			{"ascii-only", nfa.CompilerConfig{UTF8: true, ASCIIOnly: true, MaxRecursionDepth: 100}},
		} {
			rf, _ := syntax.Parse(fullPat, syntax.Perl)
			rp, _ := syntax.Parse(prePat, syntax.Perl)
			nf, err1 := nfa.NewCompiler(m.cfg).CompileRegexp(rf)
			np, err2 := nfa.NewCompiler(m.cfg).CompileRegexp(rp)
			if err1 != nil || err2 != nil {
				env.Count("declined", "compile:"+m.name)
				continue
			}
			engines = append(engines, c15Engine{name: m.name, full: nfa.NewPikeVM(nf), prefix: nfa.NewPikeVM(np), asciiOnly: m.cfg.ASCIIOnly})
		}
		coFull, _ = coregex.Compile(fullPat)
		coPre, _ = coregex.Compile(prePat)
	}); pan {
		return mk("compile", "PANIC", "", "", msg)
	}

	// ---- rune sweep
	var buf [4]byte
	lenClasses := map[int]bool{}
	check := func(b []byte, what string) *core.Failure {
		curHay = feat.HayClass(b)
		want := stdFull.Match(b)
		wantW := -1
		if m := stdPre.FindIndex(b); m != nil {
			wantW = m[1]
		}
		ascii := true
		for _, x := range b {
			if x >= 0x80 {
				ascii = false
			}
		}
		if want && utf8.Valid(b) {
			lenClasses[len(b)] = true
		}
		for i := range engines {
			e := &engines[i]
			if e.asciiOnly && !ascii {
				continue
			}
			got := e.full.IsMatch(b)
			if got != want {
				kind := "ACCEPTS_NONMEMBER"
				if want {
					kind = "REJECTS_MEMBER"
				}
				if f := mk("nfa.PikeVM.IsMatch", kind, e.name+"/"+what, fmt.Sprintf("%v on % x", want, b), fmt.Sprintf("%v", got)); f != nil {
					return f
				}
			}
			_, end, ok := e.prefix.Search(b)
			gw := -1
			if ok {
				gw = end
			}
			if gw != wantW {
				if f := mk("nfa.PikeVM.Search", "WIDTH", e.name+"/"+what, fmt.Sprintf("width %d on % x", wantW, b), fmt.Sprintf("width %d", gw)); f != nil {
					return f
				}
			}
		}
		if coFull != nil {
			if got := coFull.Match(b); got != want {
				kind := "ACCEPTS_NONMEMBER"
				if want {
					kind = "REJECTS_MEMBER"
				}
				if f := mk("coregex.Match", kind, "end-to-end/"+what, fmt.Sprintf("%v on % x", want, b), fmt.Sprintf("%v", got)); f != nil {
					return f
				}
			}
		}
		if coPre != nil {
			gw := -1
			if m := coPre.FindIndex(b); m != nil {
				gw = m[1]
			}
			if gw != wantW {
				if f := mk("coregex.FindIndex", "WIDTH", "end-to-end/"+what, fmt.Sprintf("width %d on % x", wantW, b), fmt.Sprintf("width %d", gw)); f != nil {
					return f
				}
			}
		}
		return nil
	}
	// boundary set
	near := map[rune]bool{}
	addNear := func(r rune) {
		for d := rune(-40); d <= 40; d++ {
			if x := r + d; x >= 0 && x <= unicode.MaxRune {
				near[x] = true
			}
		}
	}
	for _, b := range []rune{0x7f, 0x80, 0x7ff, 0x800, 0xd7ff, 0xe000, 0xfffd, 0xffff, 0x10000, 0x10ffff, 0x212a, 0x17f, 0x3c3, 0x3c2, 0x130, 0x131, 0x1c4} {
		addNear(b)
	}
	var walk func(re *syntax.Regexp)
	walk = func(re *syntax.Regexp) {
		if re.Op == syntax.OpCharClass || re.Op == syntax.OpLiteral {
			for i, r := range re.Rune {
				if i < 64 {
					addNear(r)
				}
			}
		}
		for _, s := range re.Sub {
			walk(s)
		}
	}
	walk(reAtom)
	var runes int64
	var rf *core.Failure
	msg, pan := catchPanic(func() {
		for r := rune(0); r <= unicode.MaxRune; r++ {
			if r >= 0xd800 && r <= 0xdfff {
				continue
			}
			if !c.Full && r >= 0x3000 && !near[r] && uint64(r)%97 != c.Seed {
				continue
			}
			n := utf8.EncodeRune(buf[:], r)
			runes++
			if rf = check(buf[:n], "rune"); rf != nil {
				return
			}
		}
	})
	if pan {
		return mk("sweep", "PANIC", "", "", msg)
	}
	if rf != nil {
		return rf
	}
	env.CountN("inputs", "runes", runes)
	// ---- byte strings
	var nb int64
	limit := c.Bytes
	var rec func(cur []byte) *core.Failure
	rec = func(cur []byte) *core.Failure {
		if len(cur) > 0 {
			nb++
			if f := check(cur, "bytes"); f != nil {
				return f
			}
		}
		if len(cur) == limit {
			return nil
		}
		for x := 0; x < 256; x++ {
			if limit == 3 && len(cur) == 2 && false {
				continue
			}
			if f := rec(append(cur, byte(x))); f != nil {
				return f
			}
		}
		return nil
	}
	var bf *core.Failure
	msg, pan = catchPanic(func() { bf = rec(make([]byte, 0, 4)) })
	if pan {
		return mk("bytes", "PANIC", "", "", msg)
	}
	if bf != nil {
		return bf
	}
	env.CountN("inputs", "byte_strings", nb)
	if c.Full {
		env.Count("exhaustive", "all_code_points")
	}
	if len(lenClasses) >= 2 || feats != nil && (hasFeat(feats, "foldcase") || hasFeat(feats, "class_wide")) {
		env.NonTrivial(core.HashOf(c.Atom))
	}
	return nil
}

func hasFeat(fs []string, f string) bool {
	for _, x := range fs {
		if x == f {
			return true
		}
	}
	return false
}
