// Package props implements the 20 properties.
package props

import (
	"encoding/json"
	"regexp"
	"regexp/syntax"

	"pgregory.net/rapid"

	"verif/harness/internal/core"
	"verif/harness/internal/feat"
	"verif/harness/internal/gen"
)

// diffProp is the common shape of the stdlib-differential properties C01-C04.
type diffProp struct {
	id     string
	groups []string
	opts   gen.Opts
	rule   string
}

func (p *diffProp) ID() string   { return p.id }
func (p *diffProp) Rule() string { return p.rule }
func (p *diffProp) Decode(raw json.RawMessage) (any, error) {
	return core.DecodeDiffCase(raw)
}

func hopts(env *core.Env) gen.HOpts {
	return gen.HOpts{NonASCII: true, Invalid: true, Long: true, MaxLen: 4096}
}

// drawPatternHay draws a pattern and a haystack derived from it.
func drawPatternHay(t core.RT, o gen.Opts, ho gen.HOpts) (gen.PatternInfo, []byte) {
	pi := gen.Pattern(t, o, 1, 1)
	re, err := syntax.Parse(pi.Pattern, gen.ParseFlags)
	if err != nil {
		re = nil
	}
	h := gen.Haystack(t, re, ho)
	return pi, h
}

func (p *diffProp) Gen(t core.RT, env *core.Env) any {
	o := p.opts
	if p.id == "C03" || p.id == "C04" {
		o.Captures = true
	}
	pi, h := drawPatternHay(t, o, hopts(env))
	c := &core.DiffCase{Prop: p.id, Pattern: pi.Pattern, HayQ: core.QuoteHay(h), Source: pi.Source, Mutated: pi.Mutated, N: -1, K: -1}
	if p.id == "C04" {
		switch rapid.IntRange(0, 9).Draw(t, "nk") {
		case 0:
			c.N = 0
		case 1:
			c.N = 1
		case 2:
			c.N = 2
		case 3:
			c.N = 3
		case 4:
			c.N = -3
		case 5, 6:
			// count, count+1, count-1 relative to the reference sequence
			if std, err := regexp.Compile(pi.Pattern); err == nil {
				c.N = len(std.FindAllIndex(h, -1)) + rapid.IntRange(-1, 1).Draw(t, "nrel")
			}
		default:
			c.N = -1
		}
		c.K = rapid.IntRange(-1, 3).Draw(t, "k")
		c.Dst = rapid.IntRange(0, 2).Draw(t, "dst")
	}
	return c
}

func (p *diffProp) Run(ci any, env *core.Env) *core.Failure {
	c := ci.(*core.DiffCase)
	env.Eval()
	env.Sample(c)
	cc, pan := core.CompileBoth(c.Pattern, c.Mode)
	if pan != nil {
		d := &core.Disc{Prop: p.id, Kind: "COMPILE_PANIC", Detail: pan.(string)}
		return env.Known(d, c)
	}
	if cc == nil {
		env.Count("domain", "rejected_by_regexp")
		return nil
	}
	if cc.Co == nil {
		// acceptance is C09's subject; counted here, not failed
		env.Count("domain", "rejected_by_coregex_only")
		return nil
	}
	h := c.Hay()
	env.Count("strategy", cc.Strategy)
	env.Count("source", c.Source)
	env.Count("hay_class", feat.HayClass(h))
	env.Count("hay_size", feat.SizeClass(len(h)))
	a := &core.Args{H: h, N: c.N, K: c.K, Dst: c.Dst, Fn: c.Fn, Repl: c.Repl}
	var apis []*core.API
	if c.API != "" {
		if api := core.APIByName[c.API]; api != nil {
			apis = []*core.API{api}
		}
	} else {
		apis = core.APIsOfGroups(p.groups...)
	}
	// non-triviality, by the rule of each property
	switch p.id {
	case "C01":
		if cc.Std.Match(h) || len(h) >= 2 {
			env.NonTrivial(core.HashOf(c.Pattern, c.HayQ))
		}
	case "C02":
		if cc.Std.Match(h) {
			env.NonTrivial(core.HashOf(c.Pattern, c.HayQ))
		}
	case "C03":
		if cc.Std.NumSubexp() > 0 && cc.Std.Match(h) {
			env.NonTrivial(core.HashOf(c.Pattern, c.HayQ))
		}
	case "C04":
		all := cc.Std.FindAllIndex(h, -1)
		nt := len(all) >= 2
		for _, m := range all {
			if m[0] == m[1] {
				nt = true
			}
		}
		if nt {
			env.NonTrivial(core.HashOf(c.Pattern, c.HayQ, string(rune(c.N+100))))
		}
	}
	return core.DiffAPIs(env, p.id, cc, apis, a, c)
}

// NewC01..C04 construct the properties.
func NewC01() core.Property {
	return &diffProp{id: "C01", groups: []string{"match"}, opts: gen.AllOpts(),
		rule: "patterns: grammar AST or strategy template + 0-3 whitelist-boundary mutations (all accepted by regexp.Compile); haystacks built from the pattern's alphabet, sampled matches, near misses and pumped units over all byte values. Non-trivial: regexp reports a match, or the haystack has >= 2 bytes; distinct by hash(pattern, haystack)."}
}
func NewC02() core.Property {
	return &diffProp{id: "C02", groups: []string{"find"}, opts: gen.AllOpts(),
		rule: "same generators as C01; every Find*/FindIndex variant compared with regexp. Non-trivial: regexp reports a match; distinct by hash(pattern, haystack)."}
}
func NewC03() core.Property {
	return &diffProp{id: "C03", groups: []string{"submatch"}, opts: gen.AllOpts(),
		rule: "capture-biased patterns; FindSubmatch* family compared element-wise with regexp. Non-trivial: pattern has >= 1 group and regexp matches; distinct by hash(pattern, haystack)."}
}
func NewC04() core.Property {
	return &diffProp{id: "C04", groups: []string{"findall", "findallsub", "count", "iter", "append"}, opts: gen.AllOpts(),
		rule: "patterns x haystacks x limit n in {-3,-1,0,1,2,3,count-1,count,count+1} x iterator break-off k x dst variant; every enumeration API compared with regexp.FindAll(Submatch)Index. Non-trivial: reference sequence has >= 2 matches or contains an empty match; distinct by hash(pattern, haystack, n)."}
}
