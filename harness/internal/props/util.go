package props

import (
	"regexp/syntax"

	"verif/harness/internal/feat"
)

func featList(re *syntax.Regexp) []string { return feat.Pattern(re).List() }
