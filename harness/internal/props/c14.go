package props

import (
	"encoding/json"
	"fmt"
	"regexp"
	"regexp/syntax"
	"unicode/utf8"

	"pgregory.net/rapid"

	"github.com/coregx/coregex/dfa/lazy"
	"github.com/coregx/coregex/dfa/onepass"
	"github.com/coregx/coregex/nfa"

	"verif/harness/internal/core"
	"verif/harness/internal/feat"
	"verif/harness/internal/gen"
)

// C14: every engine, driven directly, agrees with the reference or declines.

type c14Case struct {
	Prop      string   `json:"property"`
	Pattern   string   `json:"pattern"`
	Longest   bool     `json:"longest,omitempty"`
	CacheCap  int      `json:"cache_capacity_bytes"`
	MaxStates uint32   `json:"max_states,omitempty"`
	Clears    int      `json:"max_cache_clears"`
	DetLimit  int      `json:"determinization_limit"`
	Reps      []int    `json:"class_representatives"` // indices into ByteClasses().Representatives()
	MaxLen    int      `json:"exhaustive_len"`
	Extra     []string `json:"extra_haystacks,omitempty"` // Go-quoted generated haystacks
	Source    string   `json:"source,omitempty"`
}

type c14 struct{}

func NewC14() core.Property { return &c14{} }
func (*c14) ID() string     { return "C14" }
func (*c14) Rule() string {
	return "per case: one pattern, one lazy.Config (cache capacity from below one state up, MaxCacheClears 0-5, determinisation limit from 10), mode first/longest; engines built directly from the exported sub-packages (nfa.PikeVM all entry points, nfa.BoundedBacktracker normal+small, lazy.DFA forward/anchored/earliest/reverse, onepass.DFA, reversed NFA); inputs: ALL strings of length <= L (L=3 quick, 4 thorough) over 2-4 representative bytes of the pattern's byte classes x ALL start offsets, plus generated longer haystacks; oracle per quantity (existence, span, leftmost-first end, start for a given end, captures) derived from regexp via \\A(?s:.{k})(?s:.*?)(P) and exact-span tests; an answer must equal the reference or be an explicit decline. Non-trivial: an engine did not decline and the reference matches; distinct by hash(pattern, config, haystack)."
}
func (*c14) Decode(raw json.RawMessage) (any, error) {
	var c c14Case
	if err := json.Unmarshal(raw, &c); err != nil {
		return nil, err
	}
	return &c, nil
}

func (*c14) Gen(t core.RT, env *core.Env) any {
	o := gen.AllOpts()
	o.MaxDepth = 3
	pi := gen.Pattern(t, o, 2, 1)
	c := &c14Case{Prop: "C14", Pattern: pi.Pattern, Source: pi.Source}
	c.Longest = rapid.IntRange(0, 5).Draw(t, "longest") == 0
	c.CacheCap = []int{2 * 1024 * 1024, 1, 64, 512, 4096, 65536}[pickIdx(t, "cap", 4, 2, 2, 2, 2, 1)]
	c.Clears = rapid.IntRange(0, 5).Draw(t, "clears")
	c.DetLimit = []int{1000, 10, 11, 20, 100}[pickIdx(t, "det", 4, 2, 1, 1, 1)]
	if rapid.IntRange(0, 5).Draw(t, "ms") == 0 {
		c.CacheCap = 0
		c.MaxStates = []uint32{1, 2, 5, 50}[rapid.IntRange(0, 3).Draw(t, "msv")]
	}
	nr := rapid.IntRange(2, 4).Draw(t, "nr")
	for i := 0; i < nr; i++ {
		c.Reps = append(c.Reps, rapid.IntRange(0, 40).Draw(t, "rep"))
	}
	c.MaxLen = 3
	if env.Thorough {
		c.MaxLen = 4
	}
	if re, err := syntax.Parse(pi.Pattern, syntax.Perl); err == nil {
		n := rapid.IntRange(0, 3).Draw(t, "nx")
		for i := 0; i < n; i++ {
			h := gen.Haystack(t, re, gen.HOpts{NonASCII: true, Invalid: rapid.IntRange(0, 3).Draw(t, "inv") == 0, Long: true, MaxLen: 600})
			c.Extra = append(c.Extra, core.QuoteHay(h))
		}
	}
	return c
}

// refCache builds and memoises the stdlib reference regexes of one pattern.
type refCache struct {
	pat     string
	longest bool
	at      map[int]*regexp.Regexp // \A(?s:.{k})(?s:.*?)(P)
	anch    map[int]*regexp.Regexp // \A(?s:.{k})(P)
	exact   map[[2]int]*regexp.Regexp
	bad     bool
}

func rep(k int) string {
	// (?s:.{k}) with k possibly above the 1000 repeat limit
	s := ""
	for k > 1000 {
		s += "(?s:.{1000})"
		k -= 1000
	}
	return s + fmt.Sprintf("(?s:.{%d})", k)
}

func (r *refCache) compile(expr string) *regexp.Regexp {
	re, err := regexp.Compile(expr)
	if err != nil {
		r.bad = true
		return nil
	}
	if r.longest {
		re.Longest()
	}
	return re
}

// searchAt returns the submatch vector of P for the leftmost match starting at or after
// byte offset at (which must be a rune boundary in the width-1-for-invalid sense), with
// full look-behind context; nil if none.
func (r *refCache) searchAt(h []byte, at int) []int {
	k := utf8.RuneCount(h[:at])
	re := r.at[k]
	if re == nil {
		// In longest mode the lazy prefix would be maximised too; leftmost is obtained by
		// trying successive anchored offsets instead.
		re = r.compile(`\A` + rep(k) + `(?s:.*?)(` + r.pat + `)`)
		r.at[k] = re
	}
	if re == nil {
		return nil
	}
	if r.longest {
		// leftmost-longest from at: first anchored offset that matches
		for p := at; p <= len(h); {
			if m := r.anchoredAt(h, p); m != nil {
				return m
			}
			if p == len(h) {
				break
			}
			_, w := utf8.DecodeRune(h[p:])
			p += w
		}
		return nil
	}
	m := re.FindSubmatchIndex(h)
	if m == nil {
		return nil
	}
	return m[2:]
}

// anchoredAt: match of P beginning exactly at offset at.
func (r *refCache) anchoredAt(h []byte, at int) []int {
	k := utf8.RuneCount(h[:at])
	re := r.anch[k]
	if re == nil {
		re = r.compile(`\A` + rep(k) + `(` + r.pat + `)`)
		r.anch[k] = re
	}
	if re == nil {
		return nil
	}
	m := re.FindSubmatchIndex(h)
	if m == nil {
		return nil
	}
	return m[2:]
}

// exactSpan: can P match exactly h[s:e] (with context)?
func (r *refCache) exactSpan(h []byte, s, e int) bool {
	ks, kr := utf8.RuneCount(h[:s]), utf8.RuneCount(h[e:])
	key := [2]int{ks, kr}
	re := r.exact[key]
	if re == nil {
		re = r.compile(`\A` + rep(ks) + `(?:` + r.pat + `)` + rep(kr) + `\z`)
		r.exact[key] = re
	}
	if re == nil {
		return false
	}
	return re.Match(h)
}

func runeBoundary(h []byte, p int) bool {
	// boundary in regexp's decoding of h from offset 0 (invalid bytes have width 1)
	for i := 0; i < len(h); {
		if i == p {
			return true
		}
		if i > p {
			return false
		}
		_, w := utf8.DecodeRune(h[i:])
		i += w
	}
	return p == len(h)
}

type c14run struct {
	env   *core.Env
	c     *c14Case
	feats []string
	ref   *refCache
	fail  *core.Failure
	ok    bool // some engine answered a matching reference
}

func (r *c14run) report(group, api, site string, h []byte, at int, exp, got any) bool {
	es, gs := core.Canon(exp), core.Canon(got)
	r.env.Count("entry", api)
	if es == gs {
		return true
	}
	kind := core.KindOf("find", exp, got)
	if _, ok := exp.(bool); ok {
		kind = core.KindOf("match", exp, got)
	}
	if _, ok := exp.(int); ok {
		// end / start positions
		e, g := exp.(int), got.(int)
		switch {
		case e >= 0 && g < 0:
			kind = "FN"
		case e < 0 && g >= 0:
			kind = "FP"
		default:
			kind = "POS"
		}
	}
	mode := "first"
	if r.c.Longest {
		mode = "longest"
	}
	d := &core.Disc{Prop: "C14", API: api, Group: group, Mode: mode, Kind: kind, Layer: "engine", Feats: r.feats, Hay: feat.HayClass(h), Site: site,
		Expected: es, Observed: gs, Detail: fmt.Sprintf("haystack=%q at=%d", h, at)}
	if f := r.env.Known(d, r.c); f != nil {
		r.fail = f
		return false
	}
	return true
}

func span(m []int) []int {
	if m == nil {
		return nil
	}
	return []int{m[0], m[1]}
}

func pikeCaps(m *nfa.MatchWithCaptures) []int {
	if m == nil {
		return nil
	}
	out := make([]int, 0, 2*len(m.Captures))
	for _, g := range m.Captures {
		if len(g) < 2 {
			out = append(out, -1, -1)
		} else {
			out = append(out, g[0], g[1])
		}
	}
	return out
}

func trip(s, e int, ok bool) []int {
	if !ok {
		return nil
	}
	return []int{s, e}
}

func (p *c14) Run(ci any, env *core.Env) *core.Failure {
	c := ci.(*c14Case)
	env.Eval()
	env.Sample(c)
	re, err := syntax.Parse(c.Pattern, syntax.Perl)
	if err != nil {
		env.Count("domain", "rejected_by_syntax")
		return nil
	}
	if _, err := regexp.Compile(c.Pattern); err != nil {
		env.Count("domain", "rejected_by_regexp")
		return nil
	}
	run := &c14run{env: env, c: c, feats: feat.Pattern(re).List(), ref: &refCache{pat: c.Pattern, longest: c.Longest, at: map[int]*regexp.Regexp{}, anch: map[int]*regexp.Regexp{}, exact: map[[2]int]*regexp.Regexp{}}}
	hasLook := false
	for _, f := range run.feats {
		if f == "anchor" || f == "word_assert" {
			hasLook = true
		}
	}

	var n, nAnch *nfa.NFA
	if msg, pan := catchPanic(func() {
		n, err = nfa.NewDefaultCompiler().CompileRegexp(re)
		if err == nil {
			cfgA := nfa.DefaultCompilerConfig()
			cfgA.Anchored = true
			nAnch, _ = nfa.NewCompiler(cfgA).CompileRegexp(re)
		}
	}); pan {
		return env.Known(&core.Disc{Prop: "C14", Kind: "COMPILE_PANIC", Group: "nfa", Detail: msg}, c)
	}
	if err != nil || n == nil {
		env.Count("domain", "nfa_compile_declined")
		return nil
	}

	// haystacks: exhaustive short strings over representatives + extras
	reps := n.ByteClasses().Representatives()
	var alpha []byte
	seen := map[byte]bool{}
	for _, ri := range c.Reps {
		if len(reps) == 0 {
			break
		}
		b := reps[ri%len(reps)]
		if !seen[b] {
			seen[b] = true
			alpha = append(alpha, b)
		}
	}
	if len(alpha) == 0 {
		alpha = []byte{'a'}
	}
	var hays [][]byte
	var rec func(cur []byte)
	rec = func(cur []byte) {
		hays = append(hays, append([]byte(nil), cur...))
		if len(cur) == c.MaxLen {
			return
		}
		for _, b := range alpha {
			rec(append(cur, b))
		}
	}
	rec(nil)
	exhaustiveCount := len(hays)
	for _, q := range c.Extra {
		hays = append(hays, (&core.DiffCase{HayQ: q}).Hay())
	}
	env.CountN("haystacks", "exhaustive_short", int64(exhaustiveCount))
	env.CountN("haystacks", "generated", int64(len(c.Extra)))

	// engines
	var pike *nfa.PikeVM
	var bt, btSmall *nfa.BoundedBacktracker
	var btState *nfa.BacktrackerState
	var fwd, rev *lazy.DFA
	var fwdCache, revCache *lazy.DFACache
	var op *onepass.DFA
	var opCache *onepass.Cache
	lcfg := lazy.DefaultConfig()
	lcfg.CacheCapacityBytes = c.CacheCap
	lcfg.MaxStates = c.MaxStates
	lcfg.MaxCacheClears = c.Clears
	lcfg.DeterminizationLimit = c.DetLimit
	lcfg.UsePrefilter = false
	site := fmt.Sprintf("cap=%s clears=%d det=%d", capClass(c), c.Clears, c.DetLimit)
	if msg, pan := catchPanic(func() {
		pike = nfa.NewPikeVM(n)
		pike.SetLongest(c.Longest)
		bt = nfa.NewBoundedBacktracker(n)
		bt.SetLongest(c.Longest)
		btSmall = nfa.NewBoundedBacktrackerSmall(n)
		btSmall.SetLongest(c.Longest)
		btState = nfa.NewBacktrackerState()
		if d, err := lazy.CompileWithConfig(n, lcfg); err == nil {
			fwd = d
			fwdCache = d.NewCache()
		} else {
			env.Count("declined", "lazy.CompileWithConfig")
		}
		if !hasLook {
			// reverse automata are built the way lazy.Config documents (and every
			// caller in meta does): "Set BreakAtMatch to false for REVERSE DFAs"
			rcfg := lcfg
			rcfg.BreakAtMatch = false
			if d, err := lazy.CompileWithConfig(nfa.ReverseAnchored(n), rcfg); err == nil {
				rev = d
				revCache = d.NewCache()
			} else {
				env.Count("declined", "lazy.CompileWithConfig(reverse)")
			}
		}
		if nAnch != nil && n.CaptureCount() > 1 {
			if d, err := onepass.Build(nAnch); err == nil {
				op = d
				opCache = onepass.NewCache(d.NumCaptures())
			} else {
				env.Count("declined", "onepass.Build")
			}
		}
	}); pan {
		return env.Known(&core.Disc{Prop: "C14", Kind: "BUILD_PANIC", Group: "engine", Feats: run.feats, Detail: msg}, c)
	}

	for hi, h := range hays {
		if run.fail != nil {
			break
		}
		for at := 0; at <= len(h) && run.fail == nil; at++ {
			if hi >= exhaustiveCount && at > 0 && at != len(h) && at%7 != 3 {
				continue // generated haystacks: sample offsets
			}
			if !runeBoundary(h, at) {
				continue // the reference is defined on rune boundaries (C15 covers mid-rune behaviour)
			}
			want := run.ref.searchAt(h, at)
			if run.ref.bad {
				env.Count("domain", "reference_too_large")
				return nil
			}
			if want != nil {
				env.NonTrivial(core.HashOf(c.Pattern, site, string(h), fmt.Sprint(at)))
			}
			wspan := span(want)
			wend := -1
			if want != nil {
				wend = want[1]
			}
			msg, pan := catchPanic(func() {
				// ---- PikeVM
				if at == 0 {
					s, e, ok := pike.Search(h)
					run.report("pikevm", "PikeVM.Search", "", h, at, wspan, trip(s, e, ok))
					run.report("pikevm", "PikeVM.IsMatch", "", h, at, want != nil, pike.IsMatch(h))
					if !c.Longest {
						run.report("pikevm", "PikeVM.SearchWithCaptures", "", h, at, want, pikeCaps(pike.SearchWithCaptures(h)))
						run.report("pikevm", "PikeVM.SearchWithSlotTableCaptures", "", h, at, want, pikeCaps(pike.SearchWithSlotTableCaptures(h)))
					}
				}
				s, e, ok := pike.SearchAt(h, at)
				run.report("pikevm", "PikeVM.SearchAt", "", h, at, wspan, trip(s, e, ok))
				for _, mode := range []nfa.SearchMode{nfa.SearchModeIsMatch, nfa.SearchModeFind, nfa.SearchModeCaptures} {
					s, e, ok = pike.SearchWithSlotTableAt(h, at, mode)
					if mode == nfa.SearchModeIsMatch {
						run.report("pikevm", "PikeVM.SearchWithSlotTableAt(IsMatch)", "", h, at, want != nil, ok)
					} else {
						run.report("pikevm", fmt.Sprintf("PikeVM.SearchWithSlotTableAt(mode%d)", mode), "", h, at, wspan, trip(s, e, ok))
					}
				}
				if !c.Longest {
					run.report("pikevm", "PikeVM.SearchWithCapturesAt", "", h, at, want, pikeCaps(pike.SearchWithCapturesAt(h, at)))
					run.report("pikevm", "PikeVM.SearchWithSlotTableCapturesAt", "", h, at, want, pikeCaps(pike.SearchWithSlotTableCapturesAt(h, at)))
				}
				if want != nil {
					s, e, ok = pike.SearchBetween(h, at, want[1])
					if want[1] > at { // documented precondition: startAt < maxEnd
						run.report("pikevm", "PikeVM.SearchBetween", "", h, at, wspan, trip(s, e, ok))
					}
					if !c.Longest {
						run.report("pikevm", "PikeVM.SearchWithCapturesInSpan", "", h, at, want, pikeCaps(pike.SearchWithCapturesInSpan(h, want[0], want[1])))
					}
				}
				// ---- BoundedBacktracker (callers test CanHandle first)
				for bi, b := range []*nfa.BoundedBacktracker{bt, btSmall} {
					name := []string{"Backtracker", "BacktrackerSmall"}[bi]
					if !b.CanHandle(len(h) - at) {
						env.Count("declined", name+".CanHandle")
						continue
					}
					s, e, ok := b.SearchAtWithState(h, at, btState)
					run.report("backtrack", name+".SearchAtWithState", "", h, at, wspan, trip(s, e, ok))
					if at == 0 && b.CanHandle(len(h)) {
						s, e, ok = b.SearchWithState(h, btState)
						run.report("backtrack", name+".SearchWithState", "", h, at, wspan, trip(s, e, ok))
						run.report("backtrack", name+".IsMatchWithState", "", h, at, want != nil, b.IsMatchWithState(h, btState))
						run.report("backtrack", name+".IsMatchAnchoredWithState", "", h, at, run.ref.anchoredAt(h, 0) != nil, b.IsMatchAnchoredWithState(h, btState))
					}
				}
				// ---- lazy DFA forward (leftmost-first end, or leftmost-longest in longest mode is
				// not offered by the DFA: only compared in first mode)
				if fwd != nil && !c.Longest {
					if at == 0 {
						run.report("lazydfa", "DFA.Find", site, h, at, wend, fwd.Find(fwdCache, h))
						run.report("lazydfa", "DFA.IsMatch", site, h, at, want != nil, fwd.IsMatch(fwdCache, h))
					}
					run.report("lazydfa", "DFA.FindAt", site, h, at, wend, fwd.FindAt(fwdCache, h, at))
					run.report("lazydfa", "DFA.SearchAt", site, h, at, wend, fwd.SearchAt(fwdCache, h, at))
					if len(h) <= 8 {
						// earliest-match mode: the smallest end of any match starting at or after at
						early := -1
						for e := at; e <= len(h) && early < 0; e++ {
							for s := at; s <= e; s++ {
								if runeBoundary(h, s) && runeBoundary(h, e) && run.ref.exactSpan(h, s, e) {
									early = e
									break
								}
							}
						}
						run.report("lazydfa", "DFA.SearchFirstAt", site, h, at, early, fwd.SearchFirstAt(fwdCache, h, at))
					}
					run.report("lazydfa", "DFA.IsMatchAt", site, h, at, want != nil, fwd.IsMatchAt(fwdCache, h, at))
					aw := -1
					if m := run.ref.anchoredAt(h, at); m != nil {
						aw = m[1]
					}
					run.report("lazydfa", "DFA.SearchAtAnchored", site, h, at, aw, fwd.SearchAtAnchored(fwdCache, h, at))
				}
				// ---- reverse DFA: start for a given end (the bidirectional search's second pass)
				if rev != nil && want != nil && !c.Longest {
					// the reverse scan reports the smallest start >= at whose span [start,end] matches
					ws := -1
					for s := at; s <= want[1]; s++ {
						if runeBoundary(h, s) && run.ref.exactSpan(h, s, want[1]) {
							ws = s
							break
						}
					}
					if ws >= 0 {
						run.report("lazydfa-rev", "DFA.SearchReverse", site, h, at, ws, rev.SearchReverse(revCache, h, at, want[1]))
						got := rev.SearchReverseLimited(revCache, h, at, want[1], at)
						if got != -2 {
							run.report("lazydfa-rev", "DFA.SearchReverseLimited", site, h, at, ws, got)
						} else {
							env.Count("declined", "SearchReverseLimited(-2)")
						}
						run.report("lazydfa-rev", "DFA.IsMatchReverse", site, h, at, true, rev.IsMatchReverse(revCache, h, at, want[1]))
					}
				}
				// ---- one-pass DFA: anchored captures at offset 0
				if op != nil && at == 0 && !c.Longest {
					aw := run.ref.anchoredAt(h, 0)
					got := op.Search(h, opCache)
					var g []int
					if got != nil {
						g = append([]int(nil), got...)
					}
					if g == nil {
						// callers (meta.findSubmatchAtWithState) treat nil as "no answer, fall back"
						env.Count("declined", "onepass.Search(nil)")
					} else {
						run.report("onepass", "onepass.Search", "", h, at, aw, g)
					}
					run.report("onepass", "onepass.IsMatch", "", h, at, aw != nil, op.IsMatch(h))
				}
			})
			if pan && run.fail == nil {
				mode := "first"
				if c.Longest {
					mode = "longest"
				}
				d := &core.Disc{Prop: "C14", API: "engine", Group: "engine", Mode: mode, Kind: "PANIC", Layer: "engine", Feats: run.feats, Hay: feat.HayClass(h), Site: site,
					Detail: fmt.Sprintf("haystack=%q at=%d panic=%s", h, at, msg)}
				if f := env.Known(d, c); f != nil {
					return f
				}
			}
		}
	}
	if fwdCache != nil {
		if fwdCache.ClearCount() > 0 {
			env.Count("provoked", "forward_cache_clears")
		}
	}
	return run.fail
}

func capClass(c *c14Case) string {
	switch {
	case c.CacheCap == 0:
		return fmt.Sprintf("maxstates%d", c.MaxStates)
	case c.CacheCap < 4096:
		return "tiny"
	case c.CacheCap < 2*1024*1024:
		return "small"
	}
	return "default"
}
