package props

import (
	"encoding/json"
	"fmt"
	"regexp"
	"regexp/syntax"
	"strings"

	"pgregory.net/rapid"

	"github.com/coregx/coregex"

	"verif/harness/internal/core"
	"verif/harness/internal/gen"
)

// C09: Compile acceptance, error text and metadata accessors vs regexp; QuoteMeta.

type c09Case struct {
	Prop    string `json:"property"`
	Pattern string `json:"pattern"`          // Go-quoted when Quoted is set
	Quoted  bool   `json:"quoted,omitempty"` // Pattern holds strconv-quoted arbitrary bytes
	Kind    string `json:"kind"`             // "compile" | "quotemeta"
	Source  string `json:"source,omitempty"` // generator provenance
	Probe   string `json:"probe,omitempty"`  // haystack sample for Copy / Unmarshal checks
}

type c09 struct{}

func NewC09() core.Property { return &c09{} }
func (*c09) ID() string     { return "C09" }
func (*c09) Rule() string {
	return "pattern domain = all strings: valid grammar/template patterns, the same with byte-level mutations (delete/insert/flip, unbalanced brackets, broken escapes, truncated UTF-8), grammar-made extremes (deep nesting, repeat towers, huge classes) and raw bytes; Compile/MustCompile/CompilePOSIX/MustCompilePOSIX error presence and text, String, NumSubexp, SubexpNames, SubexpIndex, LiteralPrefix, MarshalText/UnmarshalText, Copy compared with regexp; QuoteMeta(s) equal for arbitrary byte strings and Compile(QuoteMeta(s)) full-matches exactly s. Non-trivial: pattern length >= 2 and not a pure literal (or a QuoteMeta case containing a metacharacter); distinct by hash(kind, pattern)."
}
func (*c09) Decode(raw json.RawMessage) (any, error) {
	var c c09Case
	if err := json.Unmarshal(raw, &c); err != nil {
		return nil, err
	}
	return &c, nil
}

var hostile = []string{`(`, `)`, `[`, `]`, `{`, `}`, `\`, `*`, `+`, `?`, `|`, `^`, `$`, `(?`, `(?P<`, `(?P<n>`, `\p{`, `\pX`, `[[:`, `[[:foo:]]`, `{2,1}`, `{1001}`, `{1000}`, `\Q`, `\E`, `\8`, `\z`, `\C`, `(?i`, `(?-`, `a**`, `a++`, `a??`, `x{2}{3}`, `\x{110000}`, `\x{`, `[a-\d]`, `[z-a]`, `(?#c)`, `(?<n>a)`, `(?P=n)`, `\b*`, `^*`, `$+`, `(?:)`, `()`, `|`, `||`, `[^\x00-\x{10FFFF}]`, `[]a]`, `[^]a]`, `[a-]`, `[-a]`, `\pN`, `\p{^Greek}`, `\P{^Greek}`, `(?i)(?-i)`, `(?U)`, `.{0}`, `(a){0}`, `\_`, `\%`, "\xff", "\xc3", "é", "\x00"}

func mutateBytes(t core.RT, s string) string {
	b := []byte(s)
	n := rapid.IntRange(1, 3).Draw(t, "nm")
	for i := 0; i < n; i++ {
		switch rapid.IntRange(0, 3).Draw(t, "mk") {
		case 0:
			if len(b) > 0 {
				j := rapid.IntRange(0, len(b)-1).Draw(t, "mj")
				b = append(b[:j], b[j+1:]...)
			}
		case 1:
			j := rapid.IntRange(0, len(b)).Draw(t, "mj")
			h := hostile[rapid.IntRange(0, len(hostile)-1).Draw(t, "mh")]
			b = append(b[:j], append([]byte(h), b[j:]...)...)
		case 2:
			if len(b) > 0 {
				j := rapid.IntRange(0, len(b)-1).Draw(t, "mj")
				b[j] = byte(rapid.IntRange(0, 255).Draw(t, "mb"))
			}
		default:
			if len(b) > 1 {
				j := rapid.IntRange(1, len(b)-1).Draw(t, "mj")
				b = b[:j]
			}
		}
	}
	return string(b)
}

func extreme(t core.RT) string {
	switch rapid.IntRange(0, 7).Draw(t, "xk") {
	case 0:
		n := []int{90, 99, 100, 101, 150, 400, 999, 1000, 1001, 1200}[rapid.IntRange(0, 9).Draw(t, "xn")]
		return strings.Repeat("(", n) + "a" + strings.Repeat(")", n)
	case 1:
		n := []int{90, 101, 150, 400, 1001}[rapid.IntRange(0, 4).Draw(t, "xn")]
		return strings.Repeat("(?:", n) + "a" + strings.Repeat(")", n)
	case 2:
		return "a" + strings.Repeat("{2}", rapid.IntRange(1, 12).Draw(t, "xn"))
	case 3:
		return fmt.Sprintf("(?:a{%d}){%d}", rapid.IntRange(1, 1000).Draw(t, "xa"), rapid.IntRange(1, 1000).Draw(t, "xb"))
	case 4:
		var sb strings.Builder
		sb.WriteByte('[')
		n := rapid.IntRange(50, 400).Draw(t, "xn")
		for i := 0; i < n; i++ {
			fmt.Fprintf(&sb, `\x{%x}`, 0x100+3*i)
		}
		sb.WriteByte(']')
		return sb.String()
	case 5:
		n := rapid.IntRange(100, 400).Draw(t, "xn")
		parts := make([]string, n)
		for i := range parts {
			parts[i] = fmt.Sprintf("w%d", i)
		}
		return strings.Join(parts, "|")
	case 6:
		return strings.Repeat("ab", rapid.IntRange(100, 3000).Draw(t, "xn"))
	default:
		n := rapid.IntRange(1, 30).Draw(t, "xn")
		return strings.Repeat("a*", n) + strings.Repeat("(b|c)?", n)
	}
}

func (*c09) Gen(t core.RT, env *core.Env) any {
	if rapid.IntRange(0, 5).Draw(t, "kind") == 0 {
		// QuoteMeta over arbitrary bytes, biased to metacharacters
		n := rapid.IntRange(0, 12).Draw(t, "qn")
		var b []byte
		for i := 0; i < n; i++ {
			switch rapid.IntRange(0, 3).Draw(t, "qk") {
			case 0:
				b = append(b, `\.+*?()|[]{}^$`[rapid.IntRange(0, 13).Draw(t, "qm")])
			case 1:
				b = append(b, byte(rapid.IntRange(0, 255).Draw(t, "qb")))
			case 2:
				b = append(b, "aZ09_- \n"[rapid.IntRange(0, 7).Draw(t, "qa")])
			default:
				b = append(b, []byte("é€𝒜")[0:rapid.IntRange(1, 9).Draw(t, "qu")]...)
			}
		}
		return &c09Case{Prop: "C09", Kind: "quotemeta", Pattern: core.QuoteHay(b), Quoted: true}
	}
	var p, src string
	switch rapid.IntRange(0, 10).Draw(t, "src") {
	case 10:
		// metadata shapes: named and unnamed groups under every kind of repetition,
		// nested, in alternatives (SubexpNames/SubexpIndex/NumSubexp must not depend
		// on where a group sits)
		p, src = namedGroups(t, 0), "named-groups"
	case 0, 1, 2:
		pi := gen.Pattern(t, gen.AllOpts(), 1, 1)
		p, src = pi.Pattern, "valid:"+pi.Source
	case 3, 4, 5:
		pi := gen.Pattern(t, gen.AllOpts(), 1, 1)
		p, src = mutateBytes(t, pi.Pattern), "mutated"
	case 6:
		p, src = extreme(t), "extreme"
	case 7:
		n := rapid.IntRange(1, 4).Draw(t, "hn")
		for i := 0; i < n; i++ {
			p += hostile[rapid.IntRange(0, len(hostile)-1).Draw(t, "h")]
		}
		src = "hostile"
	case 8:
		o := gen.Opts{Captures: true, Anchors: true, POSIX: true, MaxDepth: 3}
		p, src = gen.Grammar(t, o), "posix-grammar"
	default:
		p, src = string(rapid.SliceOfN(rapid.Byte(), 0, 10).Draw(t, "raw")), "raw"
	}
	re, _ := syntax.Parse(p, syntax.Perl)
	var probe []byte
	if re != nil {
		probe = gen.Haystack(t, re, gen.HOpts{NonASCII: true, MaxLen: 64})
	}
	return &c09Case{Prop: "C09", Kind: "compile", Pattern: core.QuoteHay([]byte(p)), Quoted: true, Source: src, Probe: core.QuoteHay(probe)}
}

var groupQuants = []string{"", "", "?", "*", "+", "{0}", "{1}", "{2}", "{0,}", "{1,}", "{2,}", "{0,1}", "{1,3}", "{2,3}", "??", "*?", "+?", "{2,}?"}

func namedGroups(t *rapid.T, depth int) string {
	n := rapid.IntRange(1, 3).Draw(t, "ngn")
	var sb strings.Builder
	for i := 0; i < n; i++ {
		var inner string
		if depth < 2 && rapid.IntRange(0, 2).Draw(t, "ngnest") == 0 {
			inner = namedGroups(t, depth+1)
		} else {
			inner = []string{"a", `\d`, "[ab]", "b|c", `\w+,`, "x?"}[rapid.IntRange(0, 5).Draw(t, "nginner")]
		}
		var g string
		switch rapid.IntRange(0, 3).Draw(t, "ngkind") {
		case 0:
			g = "(" + inner + ")"
		case 1:
			g = "(?:" + inner + ")"
		default:
			name := []string{"n0", "digit", "item", "n", "x1", "Name_2"}[rapid.IntRange(0, 5).Draw(t, "ngname")]
			g = "(?P<" + name + fmt.Sprint(depth, i) + ">" + inner + ")"
		}
		q := groupQuants[rapid.IntRange(0, len(groupQuants)-1).Draw(t, "ngq")]
		sb.WriteString(g + q)
		if rapid.IntRange(0, 3).Draw(t, "ngsep") == 0 {
			sb.WriteString([]string{"|", "-", "z"}[rapid.IntRange(0, 2).Draw(t, "ngs")])
		}
	}
	return sb.String()
}

func unq(s string) string {
	c := core.DiffCase{HayQ: s}
	return string(c.Hay())
}

func catchPanic(f func()) (msg string, panicked bool) {
	defer func() {
		if r := recover(); r != nil {
			msg = fmt.Sprint(r)
			panicked = true
		}
	}()
	f()
	return "", false
}

func (p *c09) Run(ci any, env *core.Env) *core.Failure {
	c := ci.(*c09Case)
	env.Eval()
	env.Sample(c)
	pat := c.Pattern
	if c.Quoted {
		pat = unq(c.Pattern)
	}
	mk := func(api, kind, exp, got string) *core.Failure {
		d := &core.Disc{Prop: "C09", API: api, Group: "compile", Kind: kind, Layer: "api", Expected: exp, Observed: got}
		if re, err := syntax.Parse(pat, syntax.Perl); err == nil {
			d.Feats = featList(re)
		}
		return env.Known(d, c)
	}
	if c.Kind == "quotemeta" {
		env.Count("kind", "quotemeta")
		s := pat
		want := regexp.QuoteMeta(s)
		var got string
		if msg, pan := catchPanic(func() { got = coregex.QuoteMeta(s) }); pan {
			return mk("QuoteMeta", "PANIC", want, msg)
		}
		if want != s {
			env.NonTrivial(core.HashOf("qm", s))
		}
		if got != want {
			if f := mk("QuoteMeta", "DIFF", want, got); f != nil {
				return f
			}
		}
		// Compile(QuoteMeta(s)) matches exactly s
		var re *coregex.Regex
		var err error
		if msg, pan := catchPanic(func() { re, err = coregex.Compile(`^(?:` + want + `)$`) }); pan {
			return mk("Compile(QuoteMeta)", "PANIC", "compiles", msg)
		}
		if err != nil {
			if _, serr := regexp.Compile(`^(?:` + want + `)$`); serr == nil {
				return mk("Compile(QuoteMeta)", "REJECT", "compiles", err.Error())
			}
			return nil
		}
		std := regexp.MustCompile(`^(?:` + want + `)$`)
		for _, h := range []string{s, s + "x", "x" + s, strings.ToUpper(s), s[:len(s)/2]} {
			var g bool
			if msg, pan := catchPanic(func() { g = re.MatchString(h) }); pan {
				return mk("Match(QuoteMeta)", "PANIC", "", msg)
			}
			if w := std.MatchString(h); g != w {
				if f := mk("Match(QuoteMeta)", "DIFF", fmt.Sprint(w), fmt.Sprintf("%v on %q", g, h)); f != nil {
					return f
				}
			}
		}
		return nil
	}

	env.Count("kind", "compile")
	env.Count("source", c.Source)
	// ---- acceptance and error text, Perl and POSIX
	type comp struct {
		name string
		std  func(string) (*regexp.Regexp, error)
		co   func(string) (*coregex.Regex, error)
		must func(string) *coregex.Regex
		smus func(string) *regexp.Regexp
	}
	var accepted *coregex.Regex
	var acceptedStd *regexp.Regexp
	for _, cp := range []comp{
		{"Compile", regexp.Compile, coregex.Compile, coregex.MustCompile, regexp.MustCompile},
		{"CompilePOSIX", regexp.CompilePOSIX, coregex.CompilePOSIX, coregex.MustCompilePOSIX, regexp.MustCompilePOSIX},
	} {
		sre, serr := cp.std(pat)
		var cre *coregex.Regex
		var cerr error
		if msg, pan := catchPanic(func() { cre, cerr = cp.co(pat) }); pan {
			return mk(cp.name, "PANIC", errStr(serr), msg)
		}
		if serr == nil {
			env.Count("accept_"+cp.name, "accepted")
		} else {
			env.Count("accept_"+cp.name, "rejected")
		}
		switch {
		case (serr == nil) != (cerr == nil):
			kind := "REJECT_VALID"
			if serr != nil {
				kind = "ACCEPT_INVALID"
			}
			if f := mk(cp.name, kind, errStr(serr), errStr(cerr)); f != nil {
				return f
			}
		case serr != nil && serr.Error() != cerr.Error():
			if f := mk(cp.name, "ERRTEXT", serr.Error(), cerr.Error()); f != nil {
				return f
			}
		}
		// Must* panic text
		if serr != nil && cerr != nil {
			wantMsg, _ := catchPanic(func() { cp.smus(pat) })
			gotMsg, pan := catchPanic(func() { cp.must(pat) })
			if !pan {
				if f := mk("Must"+cp.name, "NO_PANIC", wantMsg, "returned normally"); f != nil {
					return f
				}
			} else if gotMsg != wantMsg {
				if f := mk("Must"+cp.name, "PANICTEXT", wantMsg, gotMsg); f != nil {
					return f
				}
			}
		}
		if cp.name == "Compile" && serr == nil && cerr == nil {
			accepted, acceptedStd = cre, sre
		}
		if cp.name == "CompilePOSIX" && serr == nil && cerr == nil {
			if a, b := cre.String(), sre.String(); a != b {
				if f := mk("CompilePOSIX.String", "DIFF", b, a); f != nil {
					return f
				}
			}
		}
	}
	if accepted == nil {
		if len(pat) >= 2 {
			env.NonTrivial(core.HashOf("rej", pat))
		}
		return nil
	}
	re, _ := syntax.Parse(pat, syntax.Perl)
	if len(pat) >= 2 && re != nil && re.Op != syntax.OpLiteral {
		env.NonTrivial(core.HashOf("acc", pat))
	}
	// ---- metadata
	type acc struct {
		name     string
		exp, got any
	}
	var accs []acc
	if msg, pan := catchPanic(func() {
		accs = append(accs, acc{"String", acceptedStd.String(), accepted.String()})
		accs = append(accs, acc{"NumSubexp", acceptedStd.NumSubexp(), accepted.NumSubexp()})
		accs = append(accs, acc{"SubexpNames", core.ListStrings(acceptedStd.SubexpNames()), core.ListStrings(accepted.SubexpNames())})
		names := append([]string{"", "missing", "n0", "n1", "n2"}, acceptedStd.SubexpNames()...)
		for _, n := range names {
			accs = append(accs, acc{"SubexpIndex", acceptedStd.SubexpIndex(n), accepted.SubexpIndex(n)})
		}
		sp, sc := acceptedStd.LiteralPrefix()
		cp, cc := accepted.LiteralPrefix()
		accs = append(accs, acc{"LiteralPrefix", []any{sp, sc}, []any{cp, cc}})
		sm, serr := acceptedStd.MarshalText()
		cm, cerr := accepted.MarshalText()
		accs = append(accs, acc{"MarshalText", []any{string(sm), serr != nil}, []any{string(cm), cerr != nil}})
	}); pan {
		return mk("metadata", "PANIC", "", msg)
	}
	for _, a := range accs {
		env.Count("accessor", a.name)
		if e, g := core.Canon(a.exp), core.Canon(a.got); e != g {
			if f := mk(a.name, "DIFF", e, g); f != nil {
				return f
			}
		}
	}
	// ---- UnmarshalText round trip (into a zero value and into a used value) and Copy
	probe := []byte(unq(c.Probe))
	var kind, exp, got string
	if msg, pan := catchPanic(func() {
		txt, _ := accepted.MarshalText()
		var z coregex.Regex
		if err := z.UnmarshalText(txt); err != nil {
			kind, exp, got = "UNMARSHAL_ZERO", "nil error", err.Error()
			return
		}
		used := coregex.MustCompile("zzz")
		_ = used.MatchString("zzz")
		if err := used.UnmarshalText(txt); err != nil {
			kind, exp, got = "UNMARSHAL_USED", "nil error", err.Error()
			return
		}
		want := core.Canon([]any{accepted.String(), accepted.FindSubmatchIndex(probe), accepted.NumSubexp()})
		for name, r := range map[string]*coregex.Regex{"UNMARSHAL_ZERO": &z, "UNMARSHAL_USED": used} {
			if g := core.Canon([]any{r.String(), r.FindSubmatchIndex(probe), r.NumSubexp()}); g != want {
				kind, exp, got = name, want, g
				return
			}
		}
		var sz regexp.Regexp
		if err := sz.UnmarshalText(txt); err != nil {
			kind, exp, got = "MARSHAL_NOT_ACCEPTED_BY_REGEXP", "regexp accepts coregex's MarshalText output", err.Error()
			return
		}
		cp := accepted.Copy()
		if cp == nil {
			kind, exp, got = "COPY_NIL", "a copy", "nil"
			return
		}
		if g := core.Canon([]any{cp.String(), cp.FindSubmatchIndex(probe), cp.NumSubexp()}); g != want {
			kind, exp, got = "COPY_DIFFERS", want, g
		}
	}); pan {
		return mk("roundtrip", "PANIC", "", msg)
	}
	if kind != "" {
		if f := mk("roundtrip", kind, exp, got); f != nil {
			return f
		}
	}
	return nil
}

func errStr(err error) string {
	if err == nil {
		return "<accepted>"
	}
	return err.Error()
}
