package props

import "verif/harness/internal/core"

var registry = map[string]func() core.Property{
	"C01": NewC01,
	"C02": NewC02,
	"C03": NewC03,
	"C04": NewC04,
	"C05": NewC05,
	"C06": NewC06,
	"C07": NewC07,
	"C08": NewC08,
	"C09": NewC09,
	"C13": NewC13,
	"C14": NewC14,
	"C15": NewC15,
	"C16": NewC16,
	"C17": NewC17,
	"C18": NewC18,
	"C19": NewC19,
	"C20": NewC20,
	"C10": NewC10,
	"C11": NewC11,
	"C12": NewC12,
}

// ByID returns the property implementation.
func ByID(id string) core.Property {
	if f := registry[id]; f != nil {
		return f()
	}
	return nil
}

// IDs lists implemented properties.
func IDs() []string {
	out := []string{}
	for k := range registry {
		out = append(out, k)
	}
	return out
}
