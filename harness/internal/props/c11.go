package props

import (
	"bytes"
	"encoding/json"
	"fmt"
	"regexp/syntax"

	"pgregory.net/rapid"

	"github.com/coregx/coregex"
	"github.com/coregx/coregex/meta"

	"verif/harness/internal/core"
	"verif/harness/internal/feat"
	"verif/harness/internal/gen"
)

// C11: all views of one Regex agree with each other (no external reference).

type c11 struct{}

func NewC11() core.Property { return &c11{} }
func (*c11) ID() string     { return "C11" }
func (*c11) Rule() string {
	return "one compiled coregex.Regex (default or Longest mode) + one meta.Engine of the same pattern, one haystack (up to 64 KiB in the thorough tier, arbitrary bytes); every exported search/enumeration method is evaluated and the lattice of equalities of the property statement is checked (Match<->FindIndex, Find/FindString/group0 = slice at FindIndex, string=bytes=reader, FindAll(n) prefix law, Count/iterators/Append = FindAllIndex, FindAllSubmatch group 0, Engine.* = top level, *At(k) variants agree for sampled k). Non-trivial: some view reports a match; distinct by hash(mode, pattern, haystack)."
}
func (*c11) Decode(raw json.RawMessage) (any, error) { return core.DecodeDiffCase(raw) }

func (*c11) Gen(t core.RT, env *core.Env) any {
	o := gen.AllOpts()
	pi := gen.Pattern(t, o, 1, 1)
	re, _ := syntax.Parse(pi.Pattern, gen.ParseFlags)
	ho := gen.HOpts{NonASCII: true, Invalid: true, Long: true, MaxLen: 4096}
	if env.Thorough && rapid.IntRange(0, 9).Draw(t, "big") == 0 {
		ho.MaxLen = 65536
	}
	h := gen.Haystack(t, re, ho)
	if ho.MaxLen > 4096 && len(h) > 0 {
		// pump to a large size
		rep := rapid.IntRange(1, 40).Draw(t, "pump")
		big := make([]byte, 0, len(h)*rep)
		for i := 0; i < rep && len(big)+len(h) <= ho.MaxLen; i++ {
			big = append(big, h...)
		}
		h = big
	}
	c := &core.DiffCase{Prop: "C11", Pattern: pi.Pattern, HayQ: core.QuoteHay(h), Source: pi.Source, Mutated: pi.Mutated}
	if rapid.IntRange(0, 4).Draw(t, "longest") == 0 {
		c.Mode = "longest"
	}
	c.N = rapid.IntRange(0, 4).Draw(t, "n")
	c.K = rapid.IntRange(0, 64).Draw(t, "k")
	return c
}

type viewCheck struct {
	name string
	a, b any
}

func sliceAt(h []byte, idx []int) []byte {
	if idx == nil {
		return nil
	}
	return h[idx[0]:idx[1]]
}

func (p *c11) Run(ci any, env *core.Env) *core.Failure {
	c := ci.(*core.DiffCase)
	env.Eval()
	env.Sample(c)
	h := c.Hay()
	reSyn, err := syntax.Parse(c.Pattern, syntax.Perl)
	if err != nil {
		env.Count("domain", "rejected_by_syntax")
		return nil
	}
	feats := feat.Pattern(reSyn).List()
	var r *coregex.Regex
	var e *meta.Engine
	_, pan := core.SafeCall(func() any {
		var err error
		r, err = coregex.Compile(c.Pattern)
		if err != nil {
			r = nil
			return nil
		}
		e, err = meta.Compile(c.Pattern)
		if err != nil {
			e = nil
		}
		return nil
	})
	if pan != "" {
		return env.Known(&core.Disc{Prop: "C11", Kind: "COMPILE_PANIC", Detail: pan}, c)
	}
	if r == nil || e == nil {
		env.Count("domain", "rejected_by_coregex")
		return nil
	}
	if c.Mode == "longest" {
		r.Longest()
		e.SetLongest(true)
	}
	strat := e.Strategy().String()
	env.Count("strategy", strat)
	env.Count("hay_class", feat.HayClass(h))
	env.Count("hay_size", feat.SizeClass(len(h)))
	env.Count("mode", modeName(c.Mode))
	hc := feat.HayClass(h)
	s := string(h)

	var checks []viewCheck
	add := func(name string, a, b any) { checks = append(checks, viewCheck{name, a, b}) }
	_, pan = core.SafeCall(func() any {
		idx := r.FindIndex(h)
		if idx != nil {
			env.NonTrivial(core.HashOf(c.Mode, c.Pattern, c.HayQ))
		}
		add("Match<->FindIndex", r.Match(h), idx != nil)
		add("MatchString<->FindIndex", r.MatchString(s), idx != nil)
		add("MatchReader<->FindIndex", r.MatchReader(bytes.NewReader(h)), idx != nil)
		add("Find=slice(FindIndex)", r.Find(h), sliceAt(h, idx))
		if idx != nil {
			add("FindString=slice(FindIndex)", r.FindString(s), string(h[idx[0]:idx[1]]))
		} else {
			add("FindString=slice(FindIndex)", r.FindString(s), "")
		}
		add("FindStringIndex=FindIndex", r.FindStringIndex(s), idx)
		add("FindReaderIndex=FindIndex", r.FindReaderIndex(bytes.NewReader(h)), idx)
		sub := r.FindSubmatchIndex(h)
		if sub != nil && len(sub) >= 2 {
			add("FindSubmatchIndex[0:2]=FindIndex", []int{sub[0], sub[1]}, idx)
		} else {
			add("FindSubmatchIndex[0:2]=FindIndex", sub, idx)
		}
		add("FindStringSubmatchIndex=FindSubmatchIndex", r.FindStringSubmatchIndex(s), sub)
		add("FindReaderSubmatchIndex=FindSubmatchIndex", r.FindReaderSubmatchIndex(bytes.NewReader(h)), sub)
		// FindSubmatch = slices of FindSubmatchIndex
		var subBytes [][]byte
		var subStrs []string
		if sub != nil {
			for i := 0; i+1 < len(sub); i += 2 {
				if sub[i] < 0 {
					subBytes = append(subBytes, nil)
					subStrs = append(subStrs, "")
				} else {
					subBytes = append(subBytes, h[sub[i]:sub[i+1]])
					subStrs = append(subStrs, s[sub[i]:sub[i+1]])
				}
			}
			add("len(FindSubmatchIndex)=2*(NumSubexp+1)", len(sub), 2*(r.NumSubexp()+1))
		}
		add("FindSubmatch=slices(FindSubmatchIndex)", r.FindSubmatch(h), subBytes)
		add("FindStringSubmatch=slices(FindSubmatchIndex)", r.FindStringSubmatch(s), subStrs)

		all := r.FindAllIndex(h, -1)
		if len(all) > 0 {
			add("FindAllIndex[0]=FindIndex", all[0], idx)
		} else {
			add("FindAllIndex empty<->FindIndex nil", idx == nil, true)
		}
		for _, n := range []int{0, 1, 2, c.N, len(all), len(all) + 1, -2} {
			want := all
			if n >= 0 && n < len(all) {
				want = all[:n]
			}
			add(fmt.Sprintf("FindAllIndex(n)=prefix(FindAllIndex(-1))[n%s]", nclass(n, len(all))), r.FindAllIndex(h, n), want)
			add(fmt.Sprintf("Count(n)=min(n,len)[n%s]", nclass(n, len(all))), r.Count(h, n), len(want))
			if n != 0 {
				add(fmt.Sprintf("AppendAllIndex(nil,n)=FindAllIndex(n)[n%s]", nclass(n, len(all))), toPairs(r.AppendAllIndex(nil, h, n)), toPairs2(want))
			}
		}
		add("FindAllStringIndex=FindAllIndex", r.FindAllStringIndex(s, -1), all)
		add("CountString=len(FindAllIndex)", r.CountString(s, -1), len(all))
		var it [][2]int
		for m := range r.AllIndex(h) {
			it = append(it, m)
		}
		add("AllIndex=FindAllIndex", toPairs(it), toPairs2(all))
		it = nil
		for m := range r.AllStringIndex(s) {
			it = append(it, m)
		}
		add("AllStringIndex=FindAllIndex", toPairs(it), toPairs2(all))
		var itb [][]byte
		for m := range r.All(h) {
			itb = append(itb, m)
		}
		var wantB [][]byte
		var wantS []string
		for _, m := range all {
			wantB = append(wantB, h[m[0]:m[1]])
			wantS = append(wantS, s[m[0]:m[1]])
		}
		add("All=slices(FindAllIndex)", core.ListBytes(itb), core.ListBytes(wantB))
		var its []string
		for m := range r.AllString(s) {
			its = append(its, m)
		}
		add("AllString=slices(FindAllIndex)", core.ListStrings(its), core.ListStrings(wantS))
		add("FindAll=slices(FindAllIndex)", core.ListBytes(r.FindAll(h, -1)), core.ListBytes(wantB))
		add("FindAllString=slices(FindAllIndex)", core.ListStrings(r.FindAllString(s, -1)), core.ListStrings(wantS))
		dst := [][2]int{{-7, -7}}
		add("AppendAllIndex(dst)=dst++FindAllIndex", toPairs(r.AppendAllIndex(dst, h, -1)), append([][]int{{-7, -7}}, all...))
		add("AppendAllStringIndex=FindAllIndex", toPairs(r.AppendAllStringIndex(nil, s, -1)), toPairs2(all))

		allSub := r.FindAllSubmatchIndex(h, -1)
		var g0 [][]int
		for _, m := range allSub {
			if len(m) >= 2 {
				g0 = append(g0, []int{m[0], m[1]})
			}
		}
		add("FindAllSubmatchIndex group0=FindAllIndex", toPairs2(g0), toPairs2(all))
		add("FindAllStringSubmatchIndex=FindAllSubmatchIndex", r.FindAllStringSubmatchIndex(s, -1), allSub)
		var wantAS [][][]byte
		var wantASS [][]string
		for _, m := range allSub {
			var row [][]byte
			var rows []string
			for i := 0; i+1 < len(m); i += 2 {
				if m[i] < 0 {
					row = append(row, nil)
					rows = append(rows, "")
				} else {
					row = append(row, h[m[i]:m[i+1]])
					rows = append(rows, s[m[i]:m[i+1]])
				}
			}
			wantAS = append(wantAS, row)
			wantASS = append(wantASS, rows)
		}
		add("FindAllSubmatch=slices(FindAllSubmatchIndex)", r.FindAllSubmatch(h, -1), wantAS)
		add("FindAllStringSubmatch=slices(FindAllSubmatchIndex)", r.FindAllStringSubmatch(s, -1), wantASS)
		if len(allSub) > 0 {
			add("FindAllSubmatchIndex[0]=FindSubmatchIndex", allSub[0], sub)
		}

		// ---- meta.Engine views
		add("Engine.IsMatch=Match", e.IsMatch(h), idx != nil)
		add("Engine.Find=FindIndex", matchSpan(e.Find(h)), idx)
		add("Engine.FindAt(0)=FindIndex", matchSpan(e.FindAt(h, 0)), idx)
		st, en, ok := e.FindIndices(h)
		add("Engine.FindIndices=FindIndex", spanOrNil(st, en, ok), idx)
		st, en, ok = e.FindIndicesAt(h, 0)
		add("Engine.FindIndicesAt(0)=FindIndex", spanOrNil(st, en, ok), idx)
		add("Engine.FindSubmatch=FindSubmatchIndex", capsFlat(e.FindSubmatch(h)), sub)
		add("Engine.Count=len(FindAllIndex)", e.Count(h, -1), len(all))
		add("Engine.FindAllIndicesStreaming=FindAllIndex", toPairs(e.FindAllIndicesStreaming(h, -1, nil)), toPairs2(all))
		var eas [][]int
		for _, m := range e.FindAllSubmatch(h, -1) {
			eas = append(eas, capsFlat(m))
		}
		add("Engine.FindAllSubmatch=FindAllSubmatchIndex", toPairs2(eas), toPairs2(allSub))
		// *At(k) variants agree with each other for sampled k
		k0 := c.K
		if k0 < 0 {
			k0 = -k0
		}
		ks := []int{k0 % (len(h) + 1), len(h)}
		for _, m := range all {
			if len(ks) < 6 {
				ks = append(ks, m[1])
			}
		}
		for _, k := range ks {
			st, en, ok := e.FindIndicesAt(h, k)
			add("Engine.FindAt(k)=FindIndicesAt(k)", matchSpan(e.FindAt(h, k)), spanOrNil(st, en, ok))
			cf := capsFlat(e.FindSubmatchAt(h, k))
			if cf != nil {
				cf = cf[:2]
			}
			add("Engine.FindSubmatchAt(k)[0:2]=FindIndicesAt(k)", cf, spanOrNil(st, en, ok))
		}
		return nil
	})
	mk := func(kind, exp, got string) *core.Failure {
		d := &core.Disc{Prop: "C11", API: kind, Group: "views", Mode: modeName(c.Mode), Kind: kind, Layer: "meta", Strategy: strat, Feats: feats, Hay: hc, Expected: exp, Observed: got}
		return env.Known(d, c)
	}
	if pan != "" {
		if f := mk("PANIC", "", pan); f != nil {
			return f
		}
	}
	for _, ch := range checks {
		env.Count("equalities", "checked")
		a, b := core.Canon(ch.a), core.Canon(ch.b)
		if a != b {
			if f := mk(ch.name, b, a); f != nil {
				return f
			}
		}
	}
	return nil
}

func nclass(n, l int) string {
	switch {
	case n < 0:
		return "<0"
	case n == 0:
		return "=0"
	case n < l:
		return "<len"
	case n == l:
		return "=len"
	default:
		return ">len"
	}
}

func toPairs(x [][2]int) [][]int {
	out := [][]int{}
	for _, m := range x {
		out = append(out, []int{m[0], m[1]})
	}
	return out
}

func toPairs2(x [][]int) [][]int {
	if x == nil {
		return [][]int{}
	}
	return x
}

func matchSpan(m *meta.Match) []int {
	if m == nil {
		return nil
	}
	return []int{m.Start(), m.End()}
}

func spanOrNil(s, e int, ok bool) []int {
	if !ok {
		return nil
	}
	return []int{s, e}
}

func capsFlat(m *meta.MatchWithCaptures) []int {
	if m == nil {
		return nil
	}
	out := []int{}
	for i := 0; i < m.NumCaptures(); i++ {
		g := m.GroupIndex(i)
		if len(g) < 2 {
			out = append(out, -1, -1)
		} else {
			out = append(out, g[0], g[1])
		}
	}
	return out
}

func modeName(m string) string {
	if m == "" {
		return "first"
	}
	return m
}
