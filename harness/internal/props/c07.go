package props

import (
	"bytes"
	"encoding/json"
	"fmt"
	"regexp/syntax"
	"unsafe"

	"pgregory.net/rapid"

	"github.com/coregx/coregex"

	"verif/harness/internal/core"
	"verif/harness/internal/feat"
	"verif/harness/internal/gen"
	"verif/harness/internal/guard"
)

// C07: total and memory-safe; results well-formed.

type c07Case struct {
	Prop    string `json:"property"`
	Pattern string `json:"pattern"` // Go-quoted arbitrary bytes
	HayQ    string `json:"haystack"`
	Slack   int    `json:"slack"`
	Front   bool   `json:"front,omitempty"`
	Longest bool   `json:"longest,omitempty"`
	Source  string `json:"source,omitempty"`
	Order   uint64 `json:"order,omitempty"` // seed of the order in which the methods are called
}

type c07 struct{ pool guard.Pool }

func NewC07() core.Property { return &c07{} }
func (*c07) ID() string     { return "C07" }
func (*c07) Rule() string {
	return "pattern domain = all strings (valid grammar/template patterns; the same with byte-level mutations; grammar-made extremes: nesting 90-1200, repeat towers, huge classes, 400-way alternations, long literals; raw bytes); haystack domain = all bytes, placed on read-only pages flush against an inaccessible page at the end (or start) at every slack 0-63, *String methods get a string header over the same memory. Checked: Compile returns value xor error; every search/enumeration/replace method returns normally (recovered panic, fault = out-of-bounds access or write to input, worker death and watchdog expiry are violations); haystack bytes unchanged; 0<=start<=end<=len; capture pairs both -1 or ordered and inside group 0; enumerations ordered and non-overlapping; n respected; returned slices alias the input at the reported offsets. Non-trivial: pattern compiled and haystack non-empty, or a mutated pattern was rejected; distinct by hash(pattern, haystack)."
}
func (*c07) Decode(raw json.RawMessage) (any, error) {
	var c c07Case
	if err := json.Unmarshal(raw, &c); err != nil {
		return nil, err
	}
	return &c, nil
}

func (*c07) Gen(t core.RT, env *core.Env) any {
	c := &c07Case{Prop: "C07"}
	var p string
	switch rapid.IntRange(0, 9).Draw(t, "src") {
	case 0, 1, 2, 3, 4:
		pi := gen.Pattern(t, gen.AllOpts(), 1, 1)
		p, c.Source = pi.Pattern, "valid:"+pi.Source
	case 5, 6:
		pi := gen.Pattern(t, gen.AllOpts(), 1, 1)
		p, c.Source = mutateBytes(t, pi.Pattern), "mutated"
	case 7:
		p, c.Source = extreme(t), "extreme"
	case 8:
		n := rapid.IntRange(1, 4).Draw(t, "hn")
		for i := 0; i < n; i++ {
			p += hostile[rapid.IntRange(0, len(hostile)-1).Draw(t, "h")]
		}
		c.Source = "hostile"
	default:
		p, c.Source = string(rapid.SliceOfN(rapid.Byte(), 0, 12).Draw(t, "raw")), "raw"
	}
	c.Pattern = core.QuoteHay([]byte(p))
	re, _ := syntax.Parse(p, syntax.Perl)
	var h []byte
	if re != nil {
		h = gen.Haystack(t, re, gen.HOpts{NonASCII: true, Invalid: true, Long: true, MaxLen: 2048})
	} else {
		h = rapid.SliceOfN(rapid.Byte(), 0, 40).Draw(t, "rawhay")
	}
	if rapid.IntRange(0, 4).Draw(t, "rawbytes") == 0 {
		// arbitrary bytes spliced in
		extra := rapid.SliceOfN(rapid.Byte(), 1, 20).Draw(t, "xb")
		pos := rapid.IntRange(0, len(h)).Draw(t, "xp")
		h = append(h[:pos:pos], append(extra, h[pos:]...)...)
	}
	c.HayQ = core.QuoteHay(h)
	c.Slack = rapid.IntRange(0, 63).Draw(t, "slack")
	if rapid.IntRange(0, 2).Draw(t, "flush") != 0 {
		c.Slack = 0
	}
	c.Front = rapid.IntRange(0, 3).Draw(t, "front") == 0
	c.Longest = rapid.IntRange(0, 7).Draw(t, "longest") == 0
	c.Order = rapid.Uint64Range(0, 1<<30).Draw(t, "order")
	return c
}

func aliasOK(h, sub []byte, start int) bool {
	if len(sub) == 0 {
		return true // empty result carries no bytes to alias
	}
	return unsafe.SliceData(sub) == unsafe.SliceData(h[start:])
}

func (p *c07) Run(ci any, env *core.Env) *core.Failure {
	c := ci.(*c07Case)
	env.Eval()
	env.Sample(c)
	pat := unq(c.Pattern)
	buf := (&core.DiffCase{HayQ: c.HayQ}).Hay()
	var feats []string
	if re, err := syntax.Parse(pat, syntax.Perl); err == nil {
		feats = feat.Pattern(re).List()
	}
	strat := ""
	mk := func(api, kind, exp, got string) *core.Failure {
		d := &core.Disc{Prop: "C07", API: api, Group: "totality", Kind: kind, Layer: "meta", Strategy: strat, Feats: feats, Hay: feat.HayClass(buf), Expected: exp, Observed: got}
		return env.Known(d, c)
	}
	env.Count("source", c.Source)
	var r *coregex.Regex
	var err error
	if msg, pan := guard.Call(func() { r, err = coregex.Compile(pat) }); pan {
		return mk("Compile", "PANIC", "value or error", msg)
	}
	if (r == nil) == (err == nil) {
		return mk("Compile", "VALUE_XOR_ERROR", "exactly one of value, error", fmt.Sprintf("value=%v err=%v", r != nil, err))
	}
	if err != nil {
		env.Count("compile", "rejected")
		if c.Source != "valid" {
			env.NonTrivial(core.HashOf(c.Pattern))
		}
		return nil
	}
	env.Count("compile", "accepted")
	if c.Longest {
		r.Longest()
	}
	strat = r.VerifEngine().Strategy().String()
	env.Count("strategy", strat)
	if len(buf) > 0 {
		env.NonTrivial(core.HashOf(c.Pattern, c.HayQ))
	}
	region := p.pool.For(len(buf) + 64)
	var h []byte
	if c.Front {
		h = region.AtStart(buf, c.Slack)
	} else {
		h = region.AtEnd(buf, c.Slack)
	}
	region.ReadOnly()
	defer region.Writable()
	var s string
	if len(h) > 0 {
		s = unsafe.String(unsafe.SliceData(h), len(h)) // string header over the guarded memory
	}
	nsub := r.NumSubexp()
	L := len(h)

	var fail *core.Failure
	bad := func(api, kind, exp, got string) bool {
		if fail == nil {
			fail = mk(api, kind, exp, got)
		}
		return fail != nil
	}
	spanOK := func(api string, m []int) {
		if m == nil {
			return
		}
		if len(m) < 2 || m[0] < 0 || m[0] > m[1] || m[1] > L {
			bad(api, "MALFORMED_SPAN", "0<=start<=end<=len", fmt.Sprint(m, " len=", L))
		}
	}
	subOK := func(api string, m []int) {
		if m == nil {
			return
		}
		if len(m) != 2*(nsub+1) {
			bad(api, "WRONG_GROUP_COUNT", fmt.Sprint(2*(nsub+1)), fmt.Sprint(len(m)))
			return
		}
		spanOK(api, m[:2])
		for i := 2; i+1 < len(m); i += 2 {
			a, b := m[i], m[i+1]
			if a == -1 && b == -1 {
				continue
			}
			if a < 0 || b < 0 || a > b || a < m[0] || b > m[1] {
				bad(api, "MALFORMED_CAPTURE", "both -1, or ordered and inside group 0", fmt.Sprint(m))
				return
			}
		}
	}
	seqOK := func(api string, all [][]int, n int) {
		if n >= 0 && len(all) > n {
			bad(api, "LIMIT_EXCEEDED", fmt.Sprint("<= ", n), fmt.Sprint(len(all)))
		}
		prevEnd := -1
		prevStart := -1
		for _, m := range all {
			spanOK(api, m)
			if len(m) < 2 {
				return
			}
			if m[0] < prevEnd || m[0] < prevStart || (m[0] == prevStart && m[1] == prevEnd) {
				bad(api, "UNORDERED_OR_OVERLAPPING", "strictly ordered, non-overlapping", fmt.Sprint(all))
				return
			}
			prevStart, prevEnd = m[0], m[1]
		}
	}
	// The calls are collected and then executed twice on the same Regex: the second
	// round runs every method after every other one, so a method that leaves state
	// behind which makes a later (different) method fail is exercised in both orders.
	type step struct {
		api string
		f   func()
	}
	var steps []step
	call := func(api string, f func()) { steps = append(steps, step{api, f}) }
	exec := func(round int, st step) {
		if fail != nil {
			return
		}
		env.Count("api", st.api)
		if msg, pan := guard.Call(st.f); pan {
			api := st.api
			if round > 0 {
				api += "(after the other methods)"
			}
			bad(api, "PANIC_OR_FAULT", "normal return", msg)
		}
	}
	call("Match", func() { r.Match(h); r.MatchString(s) })
	call("FindIndex", func() {
		m := r.FindIndex(h)
		spanOK("FindIndex", m)
		spanOK("FindStringIndex", r.FindStringIndex(s))
		f := r.Find(h)
		if (f == nil) != (m == nil) {
			bad("Find", "NIL_MISMATCH", fmt.Sprint("nil=", m == nil), fmt.Sprint("nil=", f == nil))
		} else if m != nil && len(m) >= 2 && m[0] <= m[1] && m[1] <= L {
			if len(f) != m[1]-m[0] || !aliasOK(h, f, m[0]) {
				bad("Find", "NOT_ALIASING_INPUT", "h[start:end]", fmt.Sprintf("len=%d", len(f)))
			}
		}
		_ = r.FindString(s)
	})
	call("FindSubmatchIndex", func() {
		m := r.FindSubmatchIndex(h)
		subOK("FindSubmatchIndex", m)
		subOK("FindStringSubmatchIndex", r.FindStringSubmatchIndex(s))
		sm := r.FindSubmatch(h)
		if m != nil && sm != nil && len(sm) == len(m)/2 {
			for i, g := range sm {
				if m[2*i] >= 0 && m[2*i] <= m[2*i+1] && m[2*i+1] <= L && g != nil && !aliasOK(h, g, m[2*i]) {
					bad("FindSubmatch", "NOT_ALIASING_INPUT", "h[start:end]", fmt.Sprint("group ", i))
				}
			}
		}
		_ = r.FindStringSubmatch(s)
	})
	for _, n := range []int{-1, 0, 1, 3} {
		n := n
		call("FindAllIndex", func() {
			all := r.FindAllIndex(h, n)
			seqOK("FindAllIndex", all, n)
			seqOK("FindAllStringIndex", r.FindAllStringIndex(s, n), n)
			fa := r.FindAll(h, n)
			if len(fa) != len(all) {
				bad("FindAll", "COUNT_MISMATCH", fmt.Sprint(len(all)), fmt.Sprint(len(fa)))
			} else {
				for i, f := range fa {
					if all[i][0] >= 0 && all[i][0] <= all[i][1] && all[i][1] <= L && !aliasOK(h, f, all[i][0]) {
						bad("FindAll", "NOT_ALIASING_INPUT", "h[start:end]", fmt.Sprint("match ", i))
					}
				}
			}
			_ = r.FindAllString(s, n)
		})
		call("FindAllSubmatchIndex", func() {
			all := r.FindAllSubmatchIndex(h, n)
			for _, m := range all {
				subOK("FindAllSubmatchIndex", m)
			}
			seqOK("FindAllSubmatchIndex", all, n)
			_ = r.FindAllSubmatch(h, n)
			_ = r.FindAllStringSubmatch(s, n)
			_ = r.FindAllStringSubmatchIndex(s, n)
		})
		call("Count", func() {
			k := r.Count(h, n)
			if k < 0 || (n >= 0 && k > n) {
				bad("Count", "LIMIT_EXCEEDED", fmt.Sprint("0..", n), fmt.Sprint(k))
			}
			_ = r.CountString(s, n)
		})
		call("AppendAllIndex", func() {
			out := r.AppendAllIndex(nil, h, n)
			var all [][]int
			for _, m := range out {
				all = append(all, []int{m[0], m[1]})
			}
			seqOK("AppendAllIndex", all, n)
			_ = r.AppendAllStringIndex(nil, s, n)
		})
	}
	call("AllIndex", func() {
		var all [][]int
		k := 0
		for m := range r.AllIndex(h) {
			all = append(all, []int{m[0], m[1]})
			if k++; k > L+2 {
				bad("AllIndex", "TOO_MANY_MATCHES", fmt.Sprint("<= ", L+1), "more")
				break
			}
		}
		seqOK("AllIndex", all, -1)
		k = 0
		for range r.AllString(s) {
			if k++; k > L+2 {
				break
			}
		}
		k = 0
		for range r.All(h) {
			if k++; k > L+2 {
				break
			}
		}
	})
	call("Replace", func() {
		_ = r.ReplaceAll(h, []byte("<$1$0${n0}>"))
		_ = r.ReplaceAllString(s, "$2x")
		_ = r.ReplaceAllLiteral(h, []byte("$"))
		_ = r.ReplaceAllLiteralString(s, "")
		_ = r.ReplaceAllFunc(h, func(m []byte) []byte { return m })
		_ = r.ReplaceAllStringFunc(s, func(m string) string { return m + m })
		_ = r.Split(s, -1)
		_ = r.Split(s, 2)
		_ = r.Expand(nil, []byte("$1${2}$x"), h, r.FindSubmatchIndex(h))
	})
	call("Reader", func() {
		spanOK("FindReaderIndex", r.FindReaderIndex(bytes.NewReader(h)))
		_ = r.MatchReader(bytes.NewReader(h))
		_ = r.FindReaderSubmatchIndex(bytes.NewReader(h))
	})
	call("Metadata", func() {
		_ = r.String()
		_ = r.SubexpNames()
		_, _ = r.LiteralPrefix()
		_ = r.SubexpIndex("n0")
	})
	// two rounds, each in an order derived from the case (a pure function of it):
	// state left behind by one method meets every other method as its next call
	x := c.Order*2862933555777941757 + 3037000493
	for round := 0; round < 2; round++ {
		perm := make([]int, len(steps))
		for i := range perm {
			perm[i] = i
		}
		if c.Order != 0 {
			for i := len(perm) - 1; i > 0; i-- {
				x = x*6364136223846793005 + 1442695040888963407
				j := int((x >> 33) % uint64(i+1))
				perm[i], perm[j] = perm[j], perm[i]
			}
		}
		for _, i := range perm {
			exec(round, steps[i])
		}
	}
	if fail != nil {
		return fail
	}
	if !bytes.Equal(h, buf) {
		return mk("any", "INPUT_MODIFIED", "haystack unchanged", "haystack bytes changed")
	}
	return nil
}
