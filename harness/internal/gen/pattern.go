// Package gen holds the rapid-driven generators shared by all properties:
// pattern strings (grammar + strategy-targeted templates + boundary mutations),
// haystacks derived from the pattern's own language, and small helpers.
//
// Every random choice goes through rapid so that shrinking and seed replay work.
package gen

import (
	"fmt"
	"regexp"
	"strings"

	"pgregory.net/rapid"
)

// Opts selects the pattern features a property admits.
type Opts struct {
	Lazy     bool // lazy quantifiers
	Captures bool // capture groups (named and unnamed)
	Anchors  bool // ^ $ \A \z (?m:^) (?m:$)
	WordB    bool // \b \B
	Flags    bool // (?i) (?s) (?m) (?U)
	NonASCII bool // non-ASCII literals and classes
	Unicode  bool // \pL, \p{Greek}, negated classes spanning all of Unicode
	Empty    bool // empty alternatives / empty regex
	MaxDepth int  // recursion depth (default 4)
	POSIX    bool // restrict to POSIX-ERE-valid syntax (no \d, lazy, flags, \b)
}

// AllOpts enables everything.
func AllOpts() Opts {
	return Opts{Lazy: true, Captures: true, Anchors: true, WordB: true, Flags: true, NonASCII: true, Unicode: true, Empty: true, MaxDepth: 4}
}

// pick draws an index according to integer weights; index 0 is the shrink target.
func pick(t *rapid.T, label string, weights ...int) int {
	total := 0
	for _, w := range weights {
		total += w
	}
	if total <= 0 {
		return 0
	}
	x := rapid.IntRange(0, total-1).Draw(t, label)
	for i, w := range weights {
		if x < w {
			return i
		}
		x -= w
	}
	return 0
}

func b2i(b bool, w int) int {
	if b {
		return w
	}
	return 0
}

var asciiLits = []rune("abcxyzABZ0189 _-.,:/@=\n\t")
var nonASCIILits = []rune("éÉßσΣςπкК€日本𝒜KſÿĀ߿ࠀ�￿\U00010000\U0010FFFF")

// LitRune draws a literal rune.
func LitRune(t *rapid.T, o Opts) rune {
	if o.NonASCII && rapid.IntRange(0, 9).Draw(t, "na") == 9 {
		return nonASCIILits[rapid.IntRange(0, len(nonASCIILits)-1).Draw(t, "nar")]
	}
	// first few letters dominate so that haystacks and patterns collide often
	k := pick(t, "lit", 6, 5, 4, 2, 1)
	switch k {
	case 0:
		return 'a'
	case 1:
		return 'b'
	case 2:
		return 'c'
	default:
		return asciiLits[rapid.IntRange(0, len(asciiLits)-1).Draw(t, "litr")]
	}
}

// QuoteRune renders a rune as a regex literal.
func QuoteRune(r rune) string {
	switch r {
	case '\n':
		return `\n`
	case '\t':
		return `\t`
	}
	return regexp.QuoteMeta(string(r))
}

func classRune(r rune) string {
	switch r {
	case '\n':
		return `\n`
	case '\t':
		return `\t`
	case ']', '[', '^', '-', '\\':
		return `\` + string(r)
	}
	if r > 0x7e || r < 0x20 {
		return fmt.Sprintf(`\x{%x}`, r)
	}
	return string(r)
}

var perlClasses = []string{`\d`, `\w`, `\s`, `\D`, `\W`, `\S`}
var posixClasses = []string{`[[:alpha:]]`, `[[:digit:]]`, `[[:alnum:]]`, `[[:space:]]`, `[[:upper:]]`, `[[:^alpha:]]`, `[[:punct:]]`, `[[:word:]]`}
var uniClasses = []string{`\pL`, `\PL`, `\p{Greek}`, `\p{Lu}`, `\P{Lu}`, `\pN`, `\p{Cyrillic}`, `\p{Han}`, `\PN`}
var boundaryClasses = []string{
	`[\x{7f}-\x{80}]`, `[\x{7ff}-\x{800}]`, `[\x{ffff}-\x{10000}]`, `[\x{80}-\x{10ffff}]`,
	`[\x{d7ff}-\x{e000}]`, `[^\x{0}-\x{7f}]`, `[\x{0}-\x{10ffff}]`, `[^\x{80}-\x{7ff}]`,
	`[é-ÿ]`, `[α-ω]`, `[а-я]`, `[k\x{212a}]`, `[^é]`, `[^€]`, `[\x{fffd}]`, `[^\x{fffd}]`, `[\x{10000}-\x{10ffff}]`,
}

// Class draws a character class (as pattern text).
func Class(t *rapid.T, o Opts) string {
	if o.POSIX {
		switch pick(t, "cls", 5, 2, 2) {
		case 0:
			return simpleRangeClass(t, o)
		case 1:
			return posixClasses[rapid.IntRange(0, len(posixClasses)-1).Draw(t, "pc")]
		default:
			return "."
		}
	}
	switch pick(t, "cls", 6, 5, 2, 1, b2i(o.Unicode, 2), b2i(o.NonASCII, 2), 2) {
	case 0:
		return simpleRangeClass(t, o)
	case 1:
		return perlClasses[rapid.IntRange(0, len(perlClasses)-1).Draw(t, "perl")]
	case 2:
		return "."
	case 3:
		return posixClasses[rapid.IntRange(0, len(posixClasses)-1).Draw(t, "pc")]
	case 4:
		return uniClasses[rapid.IntRange(0, len(uniClasses)-1).Draw(t, "uc")]
	case 5:
		return boundaryClasses[rapid.IntRange(0, len(boundaryClasses)-1).Draw(t, "bc")]
	default:
		// class mixing perl class and ranges
		return "[" + perlClasses[rapid.IntRange(0, 2).Draw(t, "perl")] + classRune(LitRune(t, o)) + "]"
	}
}

func simpleRangeClass(t *rapid.T, o Opts) string {
	var sb strings.Builder
	sb.WriteByte('[')
	if rapid.IntRange(0, 5).Draw(t, "neg") == 5 {
		sb.WriteByte('^')
	}
	n := rapid.IntRange(1, 3).Draw(t, "nr")
	for i := 0; i < n; i++ {
		switch pick(t, "rk", 4, 3, 2, 1) {
		case 0:
			// small lowercase range
			lo := rapid.IntRange(0, 3).Draw(t, "lo")
			hi := lo + rapid.IntRange(0, 3).Draw(t, "hi")
			fmt.Fprintf(&sb, "%c-%c", 'a'+lo, 'a'+hi)
		case 1:
			sb.WriteString(classRune(LitRune(t, o)))
		case 2:
			sb.WriteString([]string{"a-z", "A-Z", "0-9", "a-zA-Z", "0-9a-f", "a-z0-9_"}[rapid.IntRange(0, 5).Draw(t, "std")])
		default:
			a, b := LitRune(t, o), LitRune(t, o)
			if a > b {
				a, b = b, a
			}
			sb.WriteString(classRune(a) + "-" + classRune(b))
		}
	}
	sb.WriteByte(']')
	return sb.String()
}

// Literal draws a literal string (pattern text) of 1..6 runes.
func Literal(t *rapid.T, o Opts, minLen, maxLen int) string {
	n := rapid.IntRange(minLen, maxLen).Draw(t, "ll")
	var sb strings.Builder
	for i := 0; i < n; i++ {
		sb.WriteString(QuoteRune(LitRune(t, o)))
	}
	return sb.String()
}

func quant(t *rapid.T, o Opts) string {
	var q string
	switch pick(t, "q", 4, 4, 3, 1, 1, 1) {
	case 0:
		q = "*"
	case 1:
		q = "+"
	case 2:
		q = "?"
	case 3:
		q = fmt.Sprintf("{%d}", rapid.IntRange(0, 4).Draw(t, "qn"))
	case 4:
		q = fmt.Sprintf("{%d,}", rapid.IntRange(0, 3).Draw(t, "qn"))
	default:
		lo := rapid.IntRange(0, 3).Draw(t, "qn")
		q = fmt.Sprintf("{%d,%d}", lo, lo+rapid.IntRange(0, 3).Draw(t, "qm"))
	}
	if o.Lazy && !o.POSIX && rapid.IntRange(0, 4).Draw(t, "lz") == 4 {
		q += "?"
	}
	return q
}

var anchors = []string{`^`, `$`, `\A`, `\z`, `(?m:^)`, `(?m:$)`}

// atomic reports whether s can take a quantifier directly.
func wrap(s string) string { return "(?:" + s + ")" }

// Node generates a sub-pattern; the bool says whether the text is a single
// quantifiable atom (otherwise callers wrap it in a group before quantifying).
func node(t *rapid.T, o Opts, depth int) (string, bool) {
	wLeaf := 10
	wRec := 8
	if depth <= 0 {
		wRec = 0
	}
	switch pick(t, "node",
		wLeaf,                            // 0 literal rune
		6,                                // 1 class
		3,                                // 2 literal string
		wRec,                             // 3 quantified
		wRec,                             // 4 concat
		wRec*3/4,                         // 5 alternation
		b2i(o.Captures, wRec/2+1),        // 6 capture group
		wRec/4,                           // 7 non-capturing group
		b2i(o.Anchors, 2),                // 8 anchor
		b2i(o.WordB && !o.POSIX, 2),      // 9 word boundary
		b2i(o.Flags && !o.POSIX, wRec/4), // 10 flag group
	) {
	case 0:
		return QuoteRune(LitRune(t, o)), true
	case 1:
		return Class(t, o), true
	case 2:
		return Literal(t, o, 2, 5), false
	case 3:
		s, atom := node(t, o, depth-1)
		if !atom {
			s = wrap(s)
		}
		// never quantify a quantifier or bare assertion textually
		if isAssertion(s) || endsWithQuant(s) {
			s = wrap(s)
		}
		return s + quant(t, o), false
	case 4:
		n := rapid.IntRange(2, 4).Draw(t, "cn")
		var sb strings.Builder
		for i := 0; i < n; i++ {
			s, _ := node(t, o, depth-1)
			if strings.Contains(s, "|") && !isGrouped(s) {
				s = wrap(s)
			}
			sb.WriteString(s)
		}
		return sb.String(), false
	case 5:
		n := rapid.IntRange(2, 4).Draw(t, "an")
		parts := make([]string, n)
		for i := range parts {
			if o.Empty && rapid.IntRange(0, 11).Draw(t, "ea") == 11 {
				parts[i] = ""
				continue
			}
			parts[i], _ = node(t, o, depth-1)
		}
		return wrap(strings.Join(parts, "|")), true
	case 6:
		s, _ := node(t, o, depth-1)
		if !o.POSIX && rapid.IntRange(0, 5).Draw(t, "named") == 5 {
			return fmt.Sprintf("(?P<n%d>%s)", rapid.IntRange(0, 2).Draw(t, "gn"), s), true
		}
		return "(" + s + ")", true
	case 7:
		s, _ := node(t, o, depth-1)
		return wrap(s), true
	case 8:
		if o.POSIX {
			return anchors[rapid.IntRange(0, 1).Draw(t, "anc")], true
		}
		return anchors[rapid.IntRange(0, len(anchors)-1).Draw(t, "anc")], true
	case 9:
		return []string{`\b`, `\B`}[rapid.IntRange(0, 1).Draw(t, "wb")], true
	default:
		s, _ := node(t, o, depth-1)
		fl := []string{"i", "s", "m", "U", "is", "im", "-i", "i-s"}[rapid.IntRange(0, 7).Draw(t, "fl")]
		return "(?" + fl + ":" + s + ")", true
	}
}

func isAssertion(s string) bool {
	switch s {
	case `^`, `$`, `\A`, `\z`, `\b`, `\B`:
		return true
	}
	return false
}

func endsWithQuant(s string) bool {
	if s == "" {
		return false
	}
	switch s[len(s)-1] {
	case '*', '+', '?', '}':
		// could be an escaped char; wrapping is harmless either way
		return true
	}
	return false
}

func isGrouped(s string) bool {
	if len(s) < 2 || s[0] != '(' || s[len(s)-1] != ')' {
		return false
	}
	depth := 0
	for i := 0; i < len(s); i++ {
		switch s[i] {
		case '\\':
			i++
		case '(':
			depth++
		case ')':
			depth--
			if depth == 0 && i != len(s)-1 {
				return false
			}
		}
	}
	return true
}

// Grammar draws a pattern from the uniform-ish grammar.
func Grammar(t *rapid.T, o Opts) string {
	d := o.MaxDepth
	if d == 0 {
		d = 4
	}
	depth := pick(t, "depth", 2, 4, 4, 2, 1)
	if depth > d {
		depth = d
	}
	s, _ := node(t, o, depth)
	if o.Flags && !o.POSIX && rapid.IntRange(0, 9).Draw(t, "gflag") == 9 {
		s = []string{"(?i)", "(?s)", "(?m)", "(?U)", "(?im)"}[rapid.IntRange(0, 4).Draw(t, "gfl")] + s
	}
	return s
}
