package gen

import (
	"fmt"
	"strings"

	"pgregory.net/rapid"
)

// Strategy-targeted templates (DESIGN.md section 4.2). Each template is built around the
// applicability predicate of one fast path, with generated literals / classes, and then
// receives 0-3 boundary mutations that move it across the edge of the whitelist.

var words = []string{"foo", "bar", "baz", "qux", "error", "warn", "info", "GET", "POST", "http", "php", "txt", "log", "md", "abc", "abd", "bcd", "aaa", "aab", "xyz", "foobar", "hello", "world", "ab", "a", "é€", "привет"}

func word(t *rapid.T, o Opts, minLen int) string {
	if rapid.IntRange(0, 2).Draw(t, "wk") == 0 {
		for i := 0; i < 4; i++ {
			w := words[rapid.IntRange(0, len(words)-1).Draw(t, "w")]
			if len(w) >= minLen && (o.NonASCII || isASCII(w)) {
				return QuoteLit(w)
			}
		}
	}
	return Literal(t, o, minLen, minLen+3)
}

func isASCII(s string) bool {
	for i := 0; i < len(s); i++ {
		if s[i] >= 0x80 {
			return false
		}
	}
	return true
}

// QuoteLit renders a plain string as pattern text.
func QuoteLit(s string) string {
	var sb strings.Builder
	for _, r := range s {
		sb.WriteString(QuoteRune(r))
	}
	return sb.String()
}

func repeatClass(t *rapid.T, o Opts) string {
	c := Class(t, o)
	for c == "." {
		c = simpleRangeClass(t, o)
	}
	return c
}

func rq(t *rapid.T) string {
	return []string{"+", "*", "{2,}", "{1,3}", "?", "{2}", ""}[pick(t, "rq", 6, 3, 2, 1, 1, 1, 1)]
}

func altWords(t *rapid.T, o Opts, n, minLen int) string {
	parts := make([]string, n)
	for i := range parts {
		parts[i] = word(t, o, minLen)
	}
	return strings.Join(parts, "|")
}

// TemplateNames lists the template families (index = family id).
var TemplateNames = []string{
	"charclass", "composite", "anchored-literal", "branch-dispatch", "multiline-rsuffix",
	"rsuffix", "rsuffix-set", "rinner", "teddy-alt", "fat-teddy-alt", "aho-alt",
	"digit-lead", "end-anchored", "start-anchored", "onepass-caps", "prefix-lit",
	"both-medium", "blowup", "empty-matcher", "case-fold", "wordb", "lazy-dot",
}

// Template draws a pattern from one of the strategy-targeted families. fam<0 draws the family.
func Template(t *rapid.T, o Opts, fam int) (string, string) {
	if fam < 0 {
		fam = rapid.IntRange(0, len(TemplateNames)-1).Draw(t, "fam")
	}
	name := TemplateNames[fam]
	var p string
	switch name {
	case "charclass":
		p = repeatClass(t, o) + rq(t)
	case "composite":
		n := rapid.IntRange(2, 4).Draw(t, "n")
		for i := 0; i < n; i++ {
			p += repeatClass(t, o) + rq(t)
		}
	case "anchored-literal":
		pre := ""
		if rapid.Bool().Draw(t, "pre") {
			pre = word(t, o, 1)
		}
		bridge := ""
		if rapid.Bool().Draw(t, "br") {
			bridge = repeatClass(t, o) + "+"
		}
		p = "^" + pre + []string{".*", ".+"}[rapid.IntRange(0, 1).Draw(t, "dot")] + bridge + word(t, o, 2) + "$"
	case "branch-dispatch":
		n := rapid.IntRange(2, 5).Draw(t, "n")
		parts := make([]string, n)
		for i := range parts {
			switch pick(t, "bk", 3, 2, 1) {
			case 0:
				parts[i] = word(t, o, 1)
			case 1:
				parts[i] = repeatClass(t, o) + rq(t)
			default:
				parts[i] = word(t, o, 1) + repeatClass(t, o) + rq(t)
			}
		}
		p = "^(" + strings.Join(parts, "|") + ")"
		if rapid.IntRange(0, 3).Draw(t, "tail") == 0 {
			p += word(t, o, 1)
		}
	case "multiline-rsuffix":
		p = "(?m)^" + word(t, o, 1) + ".*" + word(t, o, 2)
	case "rsuffix":
		p = []string{".*", ".+", `\w+`, `[a-c]*`, `[^ ]+`, `(?s:.*)`, `.*?`, `\w{2,}`}[rapid.IntRange(0, 7).Draw(t, "pre")] + word(t, o, 1)
	case "rsuffix-set":
		p = []string{".*", ".+", `\w+`}[rapid.IntRange(0, 2).Draw(t, "pre")] + `\.(` + altWords(t, o, rapid.IntRange(2, 5).Draw(t, "n"), 2) + ")"
	case "rinner":
		pre := []string{".*", `\w+`, `[^a]+`, `.+`, `[a-z]*`, `\s*`}[rapid.IntRange(0, 5).Draw(t, "pre")]
		post := []string{".*", `\w+`, `[0-9]*`, `.+`, `(?:x)?`, `[a-c]+`, `\s+\w+`}[rapid.IntRange(0, 6).Draw(t, "post")]
		p = pre + word(t, o, 1) + post
	case "teddy-alt":
		p = altWords(t, o, rapid.IntRange(2, 8).Draw(t, "n"), 3)
		if rapid.IntRange(0, 3).Draw(t, "wrapk") == 0 {
			p = "(?:" + p + ")" + []string{`\d+`, `\w*`, ` `, `s?`}[rapid.IntRange(0, 3).Draw(t, "tail")]
		}
	case "fat-teddy-alt":
		p = manyAlts(t, rapid.IntRange(33, 64).Draw(t, "n"), 3)
	case "aho-alt":
		p = manyAlts(t, rapid.IntRange(65, 120).Draw(t, "n"), rapid.IntRange(1, 3).Draw(t, "ml"))
	case "digit-lead":
		switch rapid.IntRange(0, 3).Draw(t, "dk") {
		case 0:
			p = `\d+\.\d+\.\d+`
		case 1:
			p = `(?:25[0-5]|2[0-4][0-9]|1[0-9][0-9]|[1-9]?[0-9])\.[0-9]+`
		case 2:
			p = `(?:0|[0-9]+)` + word(t, o, 1)
		default:
			p = `[0-9]` + rq(t) + repeatClass(t, o) + rq(t) + `\d`
		}
	case "end-anchored":
		s, _ := node(t, o, 2)
		p = s + []string{"$", `\z`, `(?:$)`}[rapid.IntRange(0, 2).Draw(t, "ea")]
	case "start-anchored":
		s, _ := node(t, o, 2)
		if strings.Contains(s, "|") && !isGrouped(s) {
			s = wrap(s)
		}
		p = []string{"^", `\A`}[rapid.IntRange(0, 1).Draw(t, "sa")] + s
	case "onepass-caps":
		n := rapid.IntRange(1, 3).Draw(t, "n")
		seps := []string{` `, `-`, `:`, `=`, `@`, `\s`, `,`}
		p = "^"
		for i := 0; i < n; i++ {
			if i > 0 {
				p += seps[rapid.IntRange(0, len(seps)-1).Draw(t, "sep")]
			}
			p += "(" + repeatClass(t, o) + rq(t) + ")"
		}
		if rapid.Bool().Draw(t, "end") {
			p += "$"
		}
	case "prefix-lit":
		s, _ := node(t, o, 2)
		if strings.Contains(s, "|") && !isGrouped(s) {
			s = wrap(s)
		}
		p = word(t, o, 2) + s
	case "both-medium":
		// medium NFA without literals: sequences of optional classes
		n := rapid.IntRange(3, 7).Draw(t, "n")
		for i := 0; i < n; i++ {
			p += repeatClass(t, o) + []string{"*", "?", "+", "{1,2}"}[rapid.IntRange(0, 3).Draw(t, "q")]
		}
		p += word(t, o, 1)
	case "blowup":
		k := rapid.IntRange(2, 9).Draw(t, "k")
		p = fmt.Sprintf("(?:a|b)*a(?:a|b){%d}", k)
		if rapid.Bool().Draw(t, "tail") {
			p += word(t, o, 1)
		}
	case "empty-matcher":
		s, _ := node(t, o, 1)
		if strings.Contains(s, "|") && !isGrouped(s) || endsWithQuant(s) || isAssertion(s) || len(s) > 1 && !isGrouped(s) {
			s = wrap(s)
		}
		p = s + []string{"*", "?", "*?", "??", "{0,2}"}[rapid.IntRange(0, 4).Draw(t, "q")]
		if rapid.IntRange(0, 2).Draw(t, "more") == 0 {
			t2, _ := node(t, o, 1)
			if strings.Contains(t2, "|") && !isGrouped(t2) {
				t2 = wrap(t2)
			}
			p += t2 + "?"
		}
	case "case-fold":
		p = "(?i)" + word(t, o, 1)
		if rapid.Bool().Draw(t, "more") {
			s, _ := node(t, o, 1)
			if strings.Contains(s, "|") && !isGrouped(s) {
				s = wrap(s)
			}
			p += s
		}
	case "wordb":
		p = []string{`\b`, `\B`, ``}[rapid.IntRange(0, 2).Draw(t, "b1")] + word(t, o, 1) + []string{`\b`, `\B`, `\w*\b`}[rapid.IntRange(0, 2).Draw(t, "b2")]
	default: // lazy-dot
		p = word(t, o, 1) + []string{".*?", ".+?", `\w*?`, `[^x]*?`}[rapid.IntRange(0, 3).Draw(t, "lz")] + word(t, o, 1)
	}
	return p, name
}

func manyAlts(t *rapid.T, n, minLen int) string {
	// distinct words built from a small alphabet so that near misses abound
	seen := map[string]bool{}
	var parts []string
	letters := "abcdefgh"
	for len(parts) < n {
		l := rapid.IntRange(minLen, minLen+3).Draw(t, "wl")
		b := make([]byte, l)
		for i := range b {
			b[i] = letters[rapid.IntRange(0, len(letters)-1).Draw(t, "ch")]
		}
		if seen[string(b)] {
			// deterministic disambiguation keeps generation rejection-free
			b = append(b, []byte(fmt.Sprintf("%d", len(parts)))...)
		}
		seen[string(b)] = true
		parts = append(parts, string(b))
	}
	return strings.Join(parts, "|")
}

// Mutate applies k textual boundary mutations that keep the pattern syntactically valid
// in almost all cases (callers re-validate with regexp/syntax and fall back to the
// unmutated text otherwise).
func Mutate(t *rapid.T, o Opts, p string) (string, int) {
	k := pick(t, "mutk", 4, 3, 2, 1)
	applied := 0
	for i := 0; i < k; i++ {
		q := mutateOnce(t, o, p)
		if q != p {
			applied++
			p = q
		}
	}
	return p, applied
}

func mutateOnce(t *rapid.T, o Opts, p string) string {
	switch pick(t, "mut", b2i(o.Lazy, 3), b2i(o.Captures, 3), 2, b2i(o.Anchors || o.WordB, 2), b2i(o.Flags, 2), 2, 2, 2) {
	case 0: // make some quantifier lazy
		idx := quantPositions(p)
		if len(idx) == 0 {
			return p
		}
		i := idx[rapid.IntRange(0, len(idx)-1).Draw(t, "qi")]
		return p[:i+1] + "?" + p[i+1:]
	case 1: // wrap whole pattern or tail in a capture
		if rapid.Bool().Draw(t, "whole") {
			return "(" + p + ")"
		}
		return "(" + p + ")" + rq(t)
	case 2: // insert an optional node in front / at the end
		s := QuoteRune(LitRune(t, o)) + "?"
		if rapid.Bool().Draw(t, "front") {
			return s + groupIfAlt(p)
		}
		return groupIfAlt(p) + s
	case 3: // add an assertion next to an edge
		as := []string{}
		if o.WordB {
			as = append(as, `\b`, `\B`)
		}
		if o.Anchors {
			as = append(as, `^`, `$`, `(?m:^)`, `(?m:$)`, `\A`, `\z`)
		}
		a := as[rapid.IntRange(0, len(as)-1).Draw(t, "as")]
		if rapid.Bool().Draw(t, "front") {
			return a + groupIfAlt(p)
		}
		return groupIfAlt(p) + a
	case 4: // global flag
		return []string{"(?i)", "(?m)", "(?s)", "(?U)"}[rapid.IntRange(0, 3).Draw(t, "fl")] + p
	case 5: // append a trailing concatenation
		return groupIfAlt(p) + []string{"a", `\d`, `[a-c]+`, `.`, ` `, `x*`}[rapid.IntRange(0, 5).Draw(t, "tail")]
	case 6: // + <-> * <-> {2,}
		idx := quantPositions(p)
		if len(idx) == 0 {
			return p
		}
		i := idx[rapid.IntRange(0, len(idx)-1).Draw(t, "qi")]
		if p[i] == '+' {
			return p[:i] + []string{"*", "{2,}", "{1,2}"}[rapid.IntRange(0, 2).Draw(t, "nq")] + p[i+1:]
		}
		if p[i] == '*' {
			return p[:i] + []string{"+", "{0,2}", "?"}[rapid.IntRange(0, 2).Draw(t, "nq")] + p[i+1:]
		}
		return p
	default: // alternate with something
		return groupIfAlt(p) + "|" + QuoteRune(LitRune(t, o))
	}
}

func groupIfAlt(p string) string {
	if strings.Contains(p, "|") && !isGrouped(p) || strings.HasPrefix(p, "(?i)") || strings.HasPrefix(p, "(?m)") || strings.HasPrefix(p, "(?s)") || strings.HasPrefix(p, "(?U)") {
		return "(?:" + p + ")"
	}
	return p
}

// quantPositions returns byte offsets of unescaped, out-of-class '+' and '*'.
func quantPositions(p string) []int {
	var idx []int
	inClass := false
	for i := 0; i < len(p); i++ {
		switch p[i] {
		case '\\':
			i++
		case '[':
			if !inClass {
				inClass = true
				if i+1 < len(p) && p[i+1] == '^' {
					i++
				}
				if i+1 < len(p) && p[i+1] == ']' {
					i++
				}
			} else if i+1 < len(p) && p[i+1] == ':' {
				// posix class inside bracket: skip to ":]"
				if j := strings.Index(p[i:], ":]"); j >= 0 {
					i += j + 1
				}
			}
		case ']':
			inClass = false
		case '+', '*':
			if !inClass && i > 0 && (i+1 >= len(p) || p[i+1] != '?') {
				idx = append(idx, i)
			}
		}
	}
	return idx
}
