package gen

import (
	"regexp/syntax"
	"unicode"
	"unicode/utf8"

	"pgregory.net/rapid"
)

// PatternInfo is a drawn pattern plus provenance.
type PatternInfo struct {
	Pattern  string
	Source   string // "grammar" or template family name
	Mutated  int    // number of boundary mutations applied
	Fallback bool   // a mutation made the text invalid and was dropped
}

// ParseFlags used everywhere for Perl syntax (what regexp.Compile uses).
const ParseFlags = syntax.Perl

// Pattern draws a pattern: grammar (wGrammar) or template+mutations (wTemplate).
// The result is always accepted by regexp/syntax (invalid mutations are dropped).
func Pattern(t *rapid.T, o Opts, wGrammar, wTemplate int) PatternInfo {
	src := pick(t, "src", wGrammar, wTemplate, (wGrammar+wTemplate+2)/3)
	if src == 2 {
		p := Tiny(t, o)
		if _, err := syntax.Parse(p, flagsFor(o)); err != nil {
			return PatternInfo{Pattern: "a", Source: "tiny", Fallback: true}
		}
		return PatternInfo{Pattern: p, Source: "tiny"}
	}
	if src == 0 {
		p := Grammar(t, o)
		if _, err := syntax.Parse(p, flagsFor(o)); err != nil {
			// the grammar is built to be valid; a residual invalid text (e.g. repeat count
			// overflow "{4}{4}{4}...") falls back to a trivially valid pattern
			return PatternInfo{Pattern: "a", Source: "grammar", Fallback: true}
		}
		return PatternInfo{Pattern: p, Source: "grammar"}
	}
	p, name := Template(t, o, -1)
	q, k := Mutate(t, o, p)
	if _, err := syntax.Parse(q, flagsFor(o)); err != nil {
		if _, err2 := syntax.Parse(p, flagsFor(o)); err2 != nil {
			return PatternInfo{Pattern: "a", Source: name, Fallback: true}
		}
		return PatternInfo{Pattern: p, Source: name, Fallback: true}
	}
	return PatternInfo{Pattern: q, Source: name, Mutated: k}
}

func flagsFor(o Opts) syntax.Flags {
	if o.POSIX {
		return syntax.POSIX
	}
	return syntax.Perl
}

// HOpts controls haystack generation.
type HOpts struct {
	NonASCII bool // well-formed multi-byte runes allowed
	Invalid  bool // ill-formed UTF-8 allowed
	MaxLen   int  // soft cap on length (0 = 4096)
	Long     bool // allow the long length classes
}

var invalidFrags = [][]byte{
	{0xff}, {0x80}, {0xc0}, {0xc3}, {0xe2, 0x82}, {0xf0, 0x9f, 0x98}, {0xed, 0xa0, 0x80}, {0xc0, 0xaf}, {0xf4, 0x90, 0x80, 0x80}, {0xbf}, {0xfe}, {0xe0, 0x80}, {0xf8},
}

var noiseASCII = []byte("ab c\n_-x0.A@1")
var noiseRunes = []rune("é€日𝒜ßσK")

// Sample draws one string from (an over-approximation of) the language of re: assertions
// are ignored, so the sample is a candidate match, not a guaranteed one.
func Sample(t *rapid.T, re *syntax.Regexp, ho HOpts, budget *int) []byte {
	var out []byte
	sampleInto(t, re, ho, &out, budget)
	return out
}

func sampleInto(t *rapid.T, re *syntax.Regexp, ho HOpts, out *[]byte, budget *int) {
	if *budget <= 0 {
		return
	}
	*budget--
	switch re.Op {
	case syntax.OpLiteral:
		for _, r := range re.Rune {
			if re.Flags&syntax.FoldCase != 0 {
				// walk the simple-fold orbit a drawn number of steps
				n := rapid.IntRange(0, 3).Draw(t, "fold")
				for i := 0; i < n; i++ {
					r = unicode.SimpleFold(r)
				}
			}
			if r >= 0x80 && !ho.NonASCII {
				continue
			}
			*out = utf8.AppendRune(*out, r)
		}
	case syntax.OpCharClass:
		if len(re.Rune) == 0 {
			return
		}
		i := rapid.IntRange(0, len(re.Rune)/2-1).Draw(t, "rng")
		lo, hi := re.Rune[2*i], re.Rune[2*i+1]
		var r rune
		switch pick(t, "end", 2, 2, 1) {
		case 0:
			r = lo
		case 1:
			r = hi
		default:
			r = lo + rune(rapid.IntRange(0, int(hi-lo)).Draw(t, "mid"))
		}
		if r >= 0x80 && !ho.NonASCII {
			// try to stay inside the class with an ASCII member
			found := false
			for j := 0; j+1 < len(re.Rune); j += 2 {
				if re.Rune[j] < 0x80 {
					r = re.Rune[j]
					found = true
					break
				}
			}
			if !found {
				return
			}
		}
		if r >= 0xd800 && r <= 0xdfff {
			r = 0xd7ff
		}
		*out = utf8.AppendRune(*out, r)
	case syntax.OpAnyCharNotNL, syntax.OpAnyChar:
		*out = append(*out, noiseByte(t, ho)...)
	case syntax.OpCapture:
		sampleInto(t, re.Sub[0], ho, out, budget)
	case syntax.OpConcat:
		for _, s := range re.Sub {
			sampleInto(t, s, ho, out, budget)
		}
	case syntax.OpAlternate:
		sampleInto(t, re.Sub[rapid.IntRange(0, len(re.Sub)-1).Draw(t, "alt")], ho, out, budget)
	case syntax.OpStar:
		n := pick(t, "rep", 3, 3, 2, 1, 1)
		for i := 0; i < n; i++ {
			sampleInto(t, re.Sub[0], ho, out, budget)
		}
	case syntax.OpPlus:
		n := 1 + pick(t, "rep", 4, 3, 2, 1)
		for i := 0; i < n; i++ {
			sampleInto(t, re.Sub[0], ho, out, budget)
		}
	case syntax.OpQuest:
		if rapid.Bool().Draw(t, "opt") {
			sampleInto(t, re.Sub[0], ho, out, budget)
		}
	case syntax.OpRepeat:
		n := re.Min + pick(t, "rep", 4, 2, 1)
		if re.Max >= 0 && n > re.Max {
			n = re.Max
		}
		for i := 0; i < n; i++ {
			sampleInto(t, re.Sub[0], ho, out, budget)
		}
	}
}

func noiseByte(t *rapid.T, ho HOpts) []byte {
	switch pick(t, "nz", 12, b2i(ho.NonASCII, 2), b2i(ho.Invalid, 1)) {
	case 0:
		k := pick(t, "nzc", 5, 4, 3, 2, 2, 1, 1, 1, 1, 1, 1, 1, 1)
		return noiseASCII[k : k+1]
	case 1:
		return []byte(string(noiseRunes[rapid.IntRange(0, len(noiseRunes)-1).Draw(t, "nzr")]))
	default:
		return invalidFrags[rapid.IntRange(0, len(invalidFrags)-1).Draw(t, "inv")]
	}
}

// alphabet collects runes mentioned by the pattern (literals, class range ends and their
// neighbours) so that noise collides with the pattern.
func alphabet(re *syntax.Regexp, ho HOpts, acc *[]rune) {
	if len(*acc) > 64 {
		return
	}
	switch re.Op {
	case syntax.OpLiteral:
		*acc = append(*acc, re.Rune...)
	case syntax.OpCharClass:
		for i := 0; i+1 < len(re.Rune) && i < 8; i += 2 {
			*acc = append(*acc, re.Rune[i], re.Rune[i+1])
			if re.Rune[i] > 0 {
				*acc = append(*acc, re.Rune[i]-1)
			}
			if re.Rune[i+1] < unicode.MaxRune {
				*acc = append(*acc, re.Rune[i+1]+1)
			}
		}
	}
	for _, s := range re.Sub {
		alphabet(s, ho, acc)
	}
}

// Haystack draws a haystack for the parsed pattern (re may be nil for pattern-free noise).
func Haystack(t *rapid.T, re *syntax.Regexp, ho HOpts) []byte {
	maxLen := ho.MaxLen
	if maxLen == 0 {
		maxLen = 4096
	}
	// short patterns: half of the haystacks are short strings over the pattern's letters
	if re != nil && len(re.String()) <= 24 && rapid.IntRange(0, 1).Draw(t, "tinyhay") == 0 {
		return TinyHaystack(t, re)
	}
	var alpha []rune
	if re != nil {
		alphabet(re, ho, &alpha)
	}
	filtered := alpha[:0]
	for _, r := range alpha {
		if r >= 0xd800 && r <= 0xdfff || r > unicode.MaxRune || r < 0 {
			continue
		}
		if r >= 0x80 && !ho.NonASCII {
			continue
		}
		filtered = append(filtered, r)
	}
	alpha = filtered

	noise := func(out []byte) []byte {
		if len(alpha) > 0 && rapid.IntRange(0, 2).Draw(t, "fromalpha") != 0 {
			return utf8.AppendRune(out, alpha[rapid.IntRange(0, len(alpha)-1).Draw(t, "ai")])
		}
		return append(out, noiseByte(t, ho)...)
	}

	var out []byte
	// length class of the noise runs
	nPieces := pick(t, "pieces", 1, 4, 4, 3, 2, 1)
	for i := 0; i < nPieces && len(out) < maxLen; i++ {
		switch pick(t, "piece", 4, b2i(re != nil, 5), b2i(re != nil, 3), 1) {
		case 0: // noise run
			n := runLen(t, ho)
			for j := 0; j < n && len(out) < maxLen; j++ {
				out = noise(out)
			}
		case 1: // positive sample
			b := 60
			out = append(out, Sample(t, re, ho, &b)...)
		case 2: // near miss
			b := 60
			s := Sample(t, re, ho, &b)
			out = append(out, nearMiss(t, s, ho)...)
		default: // pumped unit
			b := 30
			var unit []byte
			if re != nil && rapid.Bool().Draw(t, "unitsample") {
				unit = nearMiss(t, Sample(t, re, ho, &b), ho)
			}
			if len(unit) == 0 {
				unit = noise(nil)
			}
			n := runLen(t, ho)
			for j := 0; j < n && len(out)+len(unit) <= maxLen; j++ {
				out = append(out, unit...)
			}
		}
	}
	if len(out) > maxLen {
		out = out[:maxLen]
	}
	return out
}

func runLen(t *rapid.T, ho HOpts) int {
	if ho.Long {
		switch pick(t, "lenclass", 6, 5, 3, 2, 1, 1) {
		case 0:
			return rapid.IntRange(0, 3).Draw(t, "len")
		case 1:
			return rapid.IntRange(4, 15).Draw(t, "len")
		case 2:
			return rapid.IntRange(16, 70).Draw(t, "len")
		case 3:
			return rapid.IntRange(71, 300).Draw(t, "len")
		case 4:
			return rapid.IntRange(301, 1200).Draw(t, "len")
		default:
			return rapid.IntRange(1201, 4096).Draw(t, "len")
		}
	}
	switch pick(t, "lenclass", 6, 4, 1) {
	case 0:
		return rapid.IntRange(0, 3).Draw(t, "len")
	case 1:
		return rapid.IntRange(4, 15).Draw(t, "len")
	default:
		return rapid.IntRange(16, 70).Draw(t, "len")
	}
}

func nearMiss(t *rapid.T, s []byte, ho HOpts) []byte {
	if len(s) == 0 {
		return s
	}
	out := append([]byte(nil), s...)
	i := rapid.IntRange(0, len(out)-1).Draw(t, "nmi")
	switch pick(t, "nm", 3, 3, 2, 2, 1) {
	case 0: // delete a byte (may leave ill-formed UTF-8 only if allowed)
		if out[i] < 0x80 || ho.Invalid {
			out = append(out[:i], out[i+1:]...)
		}
	case 1: // replace by noise
		if out[i] < 0x80 || ho.Invalid {
			out[i] = noiseASCII[rapid.IntRange(0, len(noiseASCII)-1).Draw(t, "nmb")]
		}
	case 2: // duplicate a byte
		if out[i] < 0x80 || ho.Invalid {
			out = append(out[:i+1], out[i:]...)
		}
	case 3: // cut the tail
		if i < len(out) && (ho.Invalid || utf8.Valid(out[:i])) {
			out = out[:i]
		}
	default: // case flip
		if out[i] >= 'a' && out[i] <= 'z' {
			out[i] -= 32
		} else if out[i] >= 'A' && out[i] <= 'Z' {
			out[i] += 32
		}
	}
	return out
}
