package gen

import (
	"regexp/syntax"
	"strings"

	"pgregory.net/rapid"
)

// Tiny draws a short pattern over a 2-3 letter alphabet: optional and repeated groups,
// alternations, captures, lazy quantifiers and the occasional assertion. Together with
// TinyHaystack (all short strings over the same letters) it covers the interactions that
// the larger grammar only reaches by luck: a failed attempt followed by a later match,
// overlapping alternatives, greedy/lazy choices, groups that do not participate.
func Tiny(t *rapid.T, o Opts) string {
	letters := []string{"a", "b", "c"}[:rapid.IntRange(2, 3).Draw(t, "tsigma")]
	return tinyAlt(t, o, letters, 0)
}

func tinyAlt(t *rapid.T, o Opts, letters []string, depth int) string {
	n := pick(t, "talts", 5, 3, 1) + 1
	alts := make([]string, 0, n)
	for i := 0; i < n; i++ {
		alts = append(alts, tinyConcat(t, o, letters, depth))
	}
	return strings.Join(alts, "|")
}

func tinyConcat(t *rapid.T, o Opts, letters []string, depth int) string {
	n := pick(t, "tcat", 2, 4, 4, 2, 1) + 1
	if depth > 0 {
		n = pick(t, "tcat", 4, 4, 2) + 1
	}
	var sb strings.Builder
	for i := 0; i < n; i++ {
		sb.WriteString(tinyNode(t, o, letters, depth))
	}
	return sb.String()
}

func tinyNode(t *rapid.T, o Opts, letters []string, depth int) string {
	var atom string
	simple := true
	switch pick(t, "tatom", 8, 2, b2i(depth < 2, 4), 1, b2i(o.Anchors && !o.POSIX, 1), b2i(o.WordB && !o.POSIX, 1)) {
	case 0:
		atom = letters[rapid.IntRange(0, len(letters)-1).Draw(t, "tl")]
	case 1:
		a := rapid.IntRange(0, len(letters)-1).Draw(t, "tc1")
		b := rapid.IntRange(0, len(letters)-1).Draw(t, "tc2")
		if a == b {
			atom = "[" + letters[a] + "]"
		} else {
			atom = "[" + letters[a] + letters[b] + "]"
		}
	case 2:
		inner := tinyAlt(t, o, letters, depth+1)
		if o.Captures && rapid.IntRange(0, 2).Draw(t, "tcap") != 0 {
			atom = "(" + inner + ")"
		} else {
			atom = "(?:" + inner + ")"
		}
	case 3:
		atom = "."
	case 4:
		return []string{"^", "$"}[rapid.IntRange(0, 1).Draw(t, "tanch")]
	default:
		return []string{`\b`, `\B`}[rapid.IntRange(0, 1).Draw(t, "twb")]
	}
	_ = simple
	q := ""
	switch pick(t, "tq", 8, 3, 3, 3, 1, 1) {
	case 1:
		q = "?"
	case 2:
		q = "*"
	case 3:
		q = "+"
	case 4:
		q = "{2}"
	case 5:
		q = "{1,2}"
	}
	if q != "" && o.Lazy && !o.POSIX && rapid.IntRange(0, 4).Draw(t, "tlazy") == 0 {
		q += "?"
	}
	return atom + q
}

// TinyHaystack draws a short string over the letters of re (plus, rarely, one foreign byte).
func TinyHaystack(t *rapid.T, re *syntax.Regexp) []byte {
	var alpha []rune
	if re != nil {
		alphabet(re, HOpts{}, &alpha)
	}
	var letters []byte
	for _, r := range alpha {
		if r < 0x80 && r >= 0x20 {
			letters = append(letters, byte(r))
		}
	}
	if len(letters) == 0 {
		letters = []byte("ab")
	}
	if len(letters) > 4 {
		letters = letters[:4]
	}
	n := rapid.IntRange(0, 10).Draw(t, "thlen")
	out := make([]byte, 0, n)
	for i := 0; i < n; i++ {
		if rapid.IntRange(0, 11).Draw(t, "tforeign") == 0 {
			out = append(out, []byte("x \n")[rapid.IntRange(0, 2).Draw(t, "tfb")])
			continue
		}
		out = append(out, letters[rapid.IntRange(0, len(letters)-1).Draw(t, "thb")])
	}
	return out
}
