// Package guard places byte buffers flush against inaccessible pages so that any read or
// write outside the slice faults. With debug.SetPanicOnFault(true) the fault is delivered as
// a recoverable Go panic, even when it happens inside the hand-written assembly kernels.
package guard

import (
	"fmt"
	"runtime/debug"
	"syscall"
)

const pageSize = 4096

// Region is a run of data pages with an inaccessible page before and after.
type Region struct {
	all    []byte // whole mapping
	data   []byte // accessible part
	rdonly bool
}

// New maps a region able to hold size bytes.
func New(size int) (*Region, error) {
	pages := (size + pageSize - 1) / pageSize
	if pages == 0 {
		pages = 1
	}
	total := (pages + 2) * pageSize
	mem, err := syscall.Mmap(-1, 0, total, syscall.PROT_READ|syscall.PROT_WRITE, syscall.MAP_ANON|syscall.MAP_PRIVATE)
	if err != nil {
		return nil, fmt.Errorf("mmap: %w", err)
	}
	if err := syscall.Mprotect(mem[:pageSize], syscall.PROT_NONE); err != nil {
		return nil, err
	}
	if err := syscall.Mprotect(mem[total-pageSize:], syscall.PROT_NONE); err != nil {
		return nil, err
	}
	return &Region{all: mem, data: mem[pageSize : total-pageSize]}, nil
}

// Writable makes the data pages writable (to fill them).
func (r *Region) Writable() {
	if r.rdonly {
		_ = syscall.Mprotect(r.data, syscall.PROT_READ|syscall.PROT_WRITE)
		r.rdonly = false
	}
}

// ReadOnly write-protects the data pages: any write by the code under test faults.
func (r *Region) ReadOnly() {
	if !r.rdonly {
		_ = syscall.Mprotect(r.data, syscall.PROT_READ)
		r.rdonly = true
	}
}

// AtEnd copies b so that it ends exactly at the rear guard page, shifted back by slack
// bytes (slack 0 = flush), and returns the placed slice with cap == len.
func (r *Region) AtEnd(b []byte, slack int) []byte {
	r.Writable()
	end := len(r.data) - slack
	start := end - len(b)
	if start < 0 {
		panic("guard: buffer too large for region")
	}
	copy(r.data[start:end], b)
	return r.data[start:end:end]
}

// AtStart copies b so that it begins right after the front guard page (plus slack).
func (r *Region) AtStart(b []byte, slack int) []byte {
	r.Writable()
	if slack+len(b) > len(r.data) {
		panic("guard: buffer too large for region")
	}
	copy(r.data[slack:slack+len(b)], b)
	return r.data[slack : slack+len(b) : slack+len(b)]
}

// Free unmaps the region.
func (r *Region) Free() {
	if r.all != nil {
		_ = syscall.Munmap(r.all)
		r.all, r.data = nil, nil
	}
}

// Call runs f with faults turned into panics and reports (panicValue, faulted).
func Call(f func()) (msg string, panicked bool) {
	old := debug.SetPanicOnFault(true)
	defer debug.SetPanicOnFault(old)
	defer func() {
		if r := recover(); r != nil {
			msg = fmt.Sprint(r)
			panicked = true
		}
	}()
	f()
	return "", false
}

// Pool keeps one Region per size class so that small buffers use small mappings
// (mprotect cost is per page; most generated buffers fit in one or two pages).
type Pool struct {
	regions map[int]*Region
}

var poolClasses = []int{pageSize, 2 * pageSize, 16 * pageSize, 272 * pageSize}

// For returns a region whose data area holds at least size bytes.
func (p *Pool) For(size int) *Region {
	if p.regions == nil {
		p.regions = map[int]*Region{}
	}
	cls := -1
	for _, c := range poolClasses {
		if size <= c {
			cls = c
			break
		}
	}
	if cls < 0 {
		cls = (size + pageSize - 1) / pageSize * pageSize
	}
	if r := p.regions[cls]; r != nil {
		return r
	}
	r, err := New(cls)
	if err != nil {
		panic(err)
	}
	p.regions[cls] = r
	return r
}
