// Package feat computes the harness's own feature vocabulary for patterns and haystacks.
// Known-finding signatures are conjunctions over this vocabulary (DESIGN.md section 6).
package feat

import (
	"regexp/syntax"
	"sort"
	"unicode/utf8"
)

// Set is a set of feature names.
type Set map[string]bool

// List returns the sorted feature names.
func (s Set) List() []string {
	out := make([]string, 0, len(s))
	for k := range s {
		out = append(out, k)
	}
	sort.Strings(out)
	return out
}

// Pattern computes pattern features from the parse tree (un-simplified, as parsed).
func Pattern(re *syntax.Regexp) Set {
	s := Set{}
	walk(re, s, 0, false)
	if canMatchEmpty(re) {
		s["can_match_empty"] = true
	}
	if firstOptional(re) {
		s["optional_first"] = true
	}
	if lastOptional(re) {
		s["optional_last"] = true
	}
	markAssertPositions(re, s)
	return s
}

// markAssertPositions sets assert_in_repeat (an assertion under a quantifier) and
// assert_mid (an assertion that is not in the leading run of begin-anchors/word assertions
// or the trailing run of end-anchors/word assertions of the top-level concatenation).
func markAssertPositions(re *syntax.Regexp, s Set) {
	var inRepeat func(r *syntax.Regexp, q bool)
	inRepeat = func(r *syntax.Regexp, q bool) {
		if isAssert(r) && r.Op != syntax.OpEmptyMatch && q {
			s["assert_in_repeat"] = true
		}
		switch r.Op {
		case syntax.OpStar, syntax.OpPlus, syntax.OpQuest, syntax.OpRepeat:
			q = true
		}
		for _, sub := range r.Sub {
			inRepeat(sub, q)
		}
	}
	inRepeat(re, false)
	hasAssert := func(r *syntax.Regexp) bool {
		found := false
		var w func(x *syntax.Regexp)
		w = func(x *syntax.Regexp) {
			if isAssert(x) && x.Op != syntax.OpEmptyMatch {
				found = true
			}
			for _, sub := range x.Sub {
				w(sub)
			}
		}
		w(r)
		return found
	}
	top := re
	for top.Op == syntax.OpCapture && len(top.Sub) == 1 {
		top = top.Sub[0]
	}
	subs := []*syntax.Regexp{top}
	if top.Op == syntax.OpConcat {
		subs = top.Sub
	}
	i, j := 0, len(subs)-1
	for i <= j && (subs[i].Op == syntax.OpBeginText || subs[i].Op == syntax.OpBeginLine || subs[i].Op == syntax.OpWordBoundary || subs[i].Op == syntax.OpNoWordBoundary) {
		i++
	}
	for j >= i && (subs[j].Op == syntax.OpEndText || subs[j].Op == syntax.OpEndLine || subs[j].Op == syntax.OpWordBoundary || subs[j].Op == syntax.OpNoWordBoundary) {
		j--
	}
	for k := i; k <= j; k++ {
		if hasAssert(subs[k]) {
			s["assert_mid"] = true
		}
	}
}

func walk(re *syntax.Regexp, s Set, quantDepth int, inCapture bool) {
	switch re.Op {
	case syntax.OpLiteral:
		s["literal"] = true
		for _, r := range re.Rune {
			if r >= 0x80 {
				s["nonascii_lit"] = true
			}
		}
		if re.Flags&syntax.FoldCase != 0 {
			s["foldcase"] = true
			for _, r := range re.Rune {
				if r >= 0x80 {
					s["foldcase_nonascii"] = true
				}
				// ASCII letters whose fold orbit leaves ASCII: k, s
				if r == 'k' || r == 'K' || r == 's' || r == 'S' {
					s["foldcase_ks"] = true
				}
			}
		}
	case syntax.OpCharClass:
		s["class"] = true
		n := len(re.Rune)
		if n > 0 && re.Rune[n-1] >= 0x80 {
			s["class_nonascii"] = true
		}
		for i := 0; i+1 < n; i += 2 {
			if re.Rune[i+1]-re.Rune[i] >= 0x800 {
				s["class_wide"] = true
			}
			if re.Rune[i] <= 0xFFFD && re.Rune[i+1] >= 0xFFFD {
				s["class_has_fffd"] = true
			}
		}
		if n == 0 {
			s["class_empty"] = true
		}
	case syntax.OpAnyCharNotNL:
		s["dot"] = true
	case syntax.OpAnyChar:
		s["dot_s"] = true
	case syntax.OpBeginLine:
		s["begin_line"] = true
		s["anchor"] = true
	case syntax.OpEndLine:
		s["end_line"] = true
		s["anchor"] = true
	case syntax.OpBeginText:
		s["begin_text"] = true
		s["anchor"] = true
	case syntax.OpEndText:
		s["end_text"] = true
		s["anchor"] = true
	case syntax.OpWordBoundary:
		s["wordb"] = true
		s["word_assert"] = true
	case syntax.OpNoWordBoundary:
		s["nowordb"] = true
		s["word_assert"] = true
	case syntax.OpCapture:
		s["capture"] = true
		if quantDepth > 0 {
			s["capture_in_repeat"] = true
		}
		if re.Name != "" {
			s["named_capture"] = true
		}
		inCapture = true
	case syntax.OpStar, syntax.OpPlus, syntax.OpQuest, syntax.OpRepeat:
		s["repeat"] = true
		if re.Flags&syntax.NonGreedy != 0 {
			s["lazy"] = true
		}
		if re.Op == syntax.OpRepeat {
			s["counted"] = true
		}
		if quantDepth > 0 {
			s["nested_repeat"] = true
		}
		if len(re.Sub) == 1 && canMatchEmpty(re.Sub[0]) {
			s["repeat_of_empty"] = true
		}
		quantDepth++
	case syntax.OpAlternate:
		s["alternation"] = true
		for _, sub := range re.Sub {
			if sub.Op == syntax.OpEmptyMatch {
				s["empty_alt"] = true
			}
		}
	case syntax.OpEmptyMatch:
		s["empty_node"] = true
	case syntax.OpNoMatch:
		s["nomatch_node"] = true
	case syntax.OpConcat:
		s["concat"] = true
	}
	for _, sub := range re.Sub {
		walk(sub, s, quantDepth, inCapture)
	}
}

func canMatchEmpty(re *syntax.Regexp) bool {
	switch re.Op {
	case syntax.OpEmptyMatch:
		return true
	case syntax.OpNoMatch:
		return false
	case syntax.OpLiteral:
		return len(re.Rune) == 0
	case syntax.OpCharClass, syntax.OpAnyCharNotNL, syntax.OpAnyChar:
		return false
	case syntax.OpBeginLine, syntax.OpEndLine, syntax.OpBeginText, syntax.OpEndText, syntax.OpWordBoundary, syntax.OpNoWordBoundary:
		return true
	case syntax.OpCapture, syntax.OpPlus:
		return canMatchEmpty(re.Sub[0])
	case syntax.OpStar, syntax.OpQuest:
		return true
	case syntax.OpRepeat:
		return re.Min == 0 || canMatchEmpty(re.Sub[0])
	case syntax.OpConcat:
		for _, sub := range re.Sub {
			if !canMatchEmpty(sub) {
				return false
			}
		}
		return true
	case syntax.OpAlternate:
		for _, sub := range re.Sub {
			if canMatchEmpty(sub) {
				return true
			}
		}
		return false
	}
	return false
}

func isAssert(re *syntax.Regexp) bool {
	switch re.Op {
	case syntax.OpBeginLine, syntax.OpEndLine, syntax.OpBeginText, syntax.OpEndText, syntax.OpWordBoundary, syntax.OpNoWordBoundary, syntax.OpEmptyMatch:
		return true
	}
	return false
}

// firstOptional: the first consuming element of the pattern can be skipped (a*b, [ab]*c, x?y).
func firstOptional(re *syntax.Regexp) bool {
	switch re.Op {
	case syntax.OpStar, syntax.OpQuest:
		return true
	case syntax.OpRepeat:
		return re.Min == 0 || firstOptional(re.Sub[0])
	case syntax.OpCapture, syntax.OpPlus:
		return firstOptional(re.Sub[0])
	case syntax.OpConcat:
		for _, sub := range re.Sub {
			if isAssert(sub) {
				continue
			}
			return firstOptional(sub)
		}
	case syntax.OpAlternate:
		for _, sub := range re.Sub {
			if firstOptional(sub) || canMatchEmpty(sub) {
				return true
			}
		}
	}
	return false
}

func lastOptional(re *syntax.Regexp) bool {
	switch re.Op {
	case syntax.OpStar, syntax.OpQuest:
		return true
	case syntax.OpRepeat:
		return re.Min == 0 || lastOptional(re.Sub[0])
	case syntax.OpCapture, syntax.OpPlus:
		return lastOptional(re.Sub[0])
	case syntax.OpConcat:
		for i := len(re.Sub) - 1; i >= 0; i-- {
			if isAssert(re.Sub[i]) {
				continue
			}
			return lastOptional(re.Sub[i])
		}
	case syntax.OpAlternate:
		for _, sub := range re.Sub {
			if lastOptional(sub) || canMatchEmpty(sub) {
				return true
			}
		}
	}
	return false
}

// HayClass classifies a haystack: "ascii", "utf8" (well-formed, some non-ASCII) or "invalid".
func HayClass(h []byte) string {
	ascii := true
	for _, b := range h {
		if b >= 0x80 {
			ascii = false
			break
		}
	}
	if ascii {
		return "ascii"
	}
	if utf8.Valid(h) {
		return "utf8"
	}
	return "invalid"
}

// SizeClass buckets a length.
func SizeClass(n int) string {
	switch {
	case n == 0:
		return "0"
	case n == 1:
		return "1"
	case n < 16:
		return "2-15"
	case n <= 64:
		return "16-64"
	case n <= 300:
		return "65-300"
	case n <= 4096:
		return "301-4096"
	case n <= 65536:
		return "4K-64K"
	default:
		return ">64K"
	}
}
