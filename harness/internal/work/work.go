// Package work is the deterministic work meter of C05: the sum of all coverage counters
// (executed basic blocks of the instrumented packages) between Reset and Read. It only
// works in a binary built with `go build -cover -covermode=atomic -coverpkg=...`.
package work

import (
	"bytes"
	"encoding/binary"
	"fmt"
	"runtime/coverage"
)

var buf bytes.Buffer

// Available reports whether the binary carries coverage instrumentation.
func Available() bool {
	return coverage.ClearCounters() == nil
}

// Reset zeroes all counters.
func Reset() error { return coverage.ClearCounters() }

// Read returns the sum of all counters since the last Reset.
func Read() (uint64, error) {
	buf.Reset()
	if err := coverage.WriteCounters(&buf); err != nil {
		return 0, err
	}
	return sum(buf.Bytes())
}

func uleb(b []byte, i *int) (uint64, error) {
	var v uint64
	var shift uint
	for {
		if *i >= len(b) {
			return 0, fmt.Errorf("truncated uleb128")
		}
		c := b[*i]
		*i++
		v |= uint64(c&0x7f) << shift
		if c&0x80 == 0 {
			return v, nil
		}
		shift += 7
	}
}

// sum parses a counter data file (internal/coverage format, version 1) and adds up counters.
func sum(b []byte) (uint64, error) {
	if len(b) < 32 || b[0] != 0 || b[1] != 'c' || b[2] != 'w' || b[3] != 'm' {
		return 0, fmt.Errorf("bad counter file header")
	}
	flavor := b[24]
	i := 32
	var total uint64
	for i+16 <= len(b) {
		// footer?
		if b[i] == 0 && b[i+1] == 'c' && b[i+2] == 'w' && b[i+3] == 'm' {
			break
		}
		fcn := binary.LittleEndian.Uint64(b[i:])
		strLen := binary.LittleEndian.Uint32(b[i+8:])
		argLen := binary.LittleEndian.Uint32(b[i+12:])
		i += 16 + int(strLen) + int(argLen)
		for f := uint64(0); f < fcn; f++ {
			rd := func() (uint64, error) {
				if flavor == 1 { // CtrRaw
					if i+4 > len(b) {
						return 0, fmt.Errorf("truncated raw counter")
					}
					v := uint64(binary.LittleEndian.Uint32(b[i:]))
					i += 4
					return v, nil
				}
				return uleb(b, &i)
			}
			nc, err := rd()
			if err != nil {
				return 0, err
			}
			if _, err := rd(); err != nil { // pkgid
				return 0, err
			}
			if _, err := rd(); err != nil { // funcid
				return 0, err
			}
			for k := uint64(0); k < nc; k++ {
				v, err := rd()
				if err != nil {
					return 0, err
				}
				total += v
			}
		}
		// segments are 4-byte aligned? the writer pads only the preamble; next comes the footer
	}
	return total, nil
}
