#!/bin/bash
# tools_seeded_verify.sh <id> <worktree> <mutdir> [demo-run-regex] [pkgdir]
# Confirms a seeded change in a scratch worktree: compiles, whole suite passes with it,
# demonstration fails with it and passes without it. Prints a verdict; never touches /repo's tree.
set -u
id=$1; wt=$2; mut=$3; run=${4:-Demo}; pkg=${5:-.}
source /verif/env.sh
cd "$wt" || exit 2
git checkout -q -- . ; git clean -fdq
git apply "$mut/patch.diff" || { echo "VERDICT $id: patch does not apply"; exit 1; }
go build ./... || { echo "VERDICT $id: does not build"; exit 1; }
suite=$(go test -vet=off -count=1 -timeout 25m ./... 2>&1)
fails=$(echo "$suite" | grep -E "^(--- FAIL|FAIL|panic)" | grep -v "TestAntiQuadratic_LargeInputPerformance" | grep -vE "^FAIL$" )
if echo "$fails" | grep -q "^--- FAIL\|^panic"; then echo "$fails" | head; echo "VERDICT $id: suite fails with change"; exit 1; fi
# a package-level FAIL line is acceptable only if caused by the flaky test
if echo "$suite" | grep -q "^--- FAIL" && ! echo "$suite" | grep "^--- FAIL" | grep -vq TestAntiQuadratic_LargeInputPerformance; then :; elif echo "$suite" | grep -q "^FAIL"; then echo "$suite" | grep "^FAIL\|^---" | head; echo "VERDICT $id: suite fails with change"; exit 1; fi
echo "suite: passes with change"
for f in "$mut"/demo*_test.go; do cp "$f" "$pkg/zz_$(basename $f)"; done
with=$(go test -vet=off -count=1 -timeout 10m ${DEMO_FLAGS:-} -run "$run" ./$pkg 2>&1); wrc=$?
git apply -R "$mut/patch.diff"
without=$(go test -vet=off -count=1 -timeout 10m ${DEMO_FLAGS:-} -run "$run" ./$pkg 2>&1); worc=$?
rm -f $pkg/zz_demo*_test.go
git checkout -q -- . ; git clean -fdq
echo "demo with change: rc=$wrc"; echo "$with" | tail -5
echo "demo without change: rc=$worc"; echo "$without" | tail -3
if [ $wrc -ne 0 ] && [ $worc -eq 0 ]; then echo "VERDICT $id: CONFIRMED"; else echo "VERDICT $id: NOT CONFIRMED"; exit 1; fi
