#!/bin/sh
# run every quick check once; print one status line per property
for p in "$@"; do
  s=$(date +%s); ./check $p quick > /tmp/q_$p.txt 2>&1; c=$?; echo "$p exit=$c $(( $(date +%s)-s ))s known=$(grep -c '^KNOWN-FINDING' /tmp/q_$p.txt) viol=$(grep -c '^VIOLATION' /tmp/q_$p.txt)"
done
